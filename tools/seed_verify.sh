#!/bin/bash
# development helper: confirm a candidate seeded change that lives in a scratch worktree of /repo (never in /repo itself).
# usage: tools/seed_verify.sh <property-id> <worktree>     e.g.  tools/seed_verify.sh C05 /tmp/wt/C05c
# prints: suite result line, demo exit code with the change and against /repo, and what the quick check says about the worktree
# (evidence redirected to $VERIF_EVIDENCE_DIR or /tmp/verif_seeded_evidence, so committed evidence is never touched).
id="$1"; wt="$2"
cd "$(dirname "$0")/.."
out="$wt/.verify"; mkdir -p "$out"
( cd "$wt" && PYTHONPATH="$wt/src" timeout 1200 /venv/bin/python -m pytest -q -p no:cacheprovider --timeout=900 2>&1 | tail -1 > "$out/suite" )
PYTHONPATH="$wt/src" timeout 180 /venv/bin/python "$wt/demo_$id.py" > "$out/demo" 2>&1; d1=$?
PYTHONPATH=/repo/src timeout 180 /venv/bin/python "$wt/demo_$id.py" > "$out/demo0" 2>&1; d0=$?
( cd "$wt" && git diff -- src ) | cmp -s - "$wt/patch.diff" && same=yes || same=NO
VERIF_EVIDENCE_DIR="${VERIF_EVIDENCE_DIR:-/tmp/verif_seeded_evidence}" PYTHONPATH="$wt/src" ./check "$id" --tier quick > "$out/check" 2>&1; rc=$?
echo "== $id suite: $(cat "$out/suite") | demo with change: $d1, clean: $d0 | patch.diff current: $same | check rc=$rc"
grep -E "condition=|HARNESS|Traceback|Error" "$out/check" | cut -c1-240 | head -6
grep -E "^$id quick" "$out/check" | tail -1
