#!/bin/sh
# development helper: apply each seeded change to /repo, run the quick check(s) of the property it breaks, restore /repo.
# usage: tools/seeded_run.sh [id ...]      (never leaves /repo modified; refuses to start on a dirty tree)
cd "$(dirname "$0")/.."
if [ -n "$(git -C /repo status --porcelain)" ]; then echo "/repo is dirty, refusing" >&2; exit 2; fi
ids="$@"
[ -z "$ids" ] && ids=$(ls seeded | grep -v README)
for id in $ids; do
    d="seeded/$id"
    [ -f "$d/patch.diff" ] || continue
    props=$(python3 -c "import json;print(' '.join(json.load(open('$d/meta.json'))['checks']))")
    if ! git -C /repo apply --check "$PWD/$d/patch.diff" 2>/dev/null; then echo "$id: patch does not apply"; continue; fi
    git -C /repo apply "$PWD/$d/patch.diff"
    for p in $props; do
        out=$(VERIF_EVIDENCE_DIR=/tmp/verif_seeded_evidence ./check "$p" --tier quick 2>&1); rc=$?
        echo "$id -> $p rc=$rc :: $(echo "$out" | grep -E "^$p quick" | tail -1)"
        echo "$out" | grep -E "VIOLATION|key=" | head -3
    done
    git -C /repo checkout -- .
done
