#!/bin/sh
# development helper: run every claimed check (quick tier by default) sequentially and summarise
cd "$(dirname "$0")/.."
TIER="${1:-quick}"
for id in $(python3 -c "import json; print(' '.join(c['property_id'] for c in json.load(open('MANIFEST.json'))['checks']))"); do
    s=$(date +%s)
    out=$(./check "$id" --tier "$TIER" 2>&1); rc=$?
    e=$(date +%s)
    echo "$id rc=$rc wall=$((e-s))s :: $(echo "$out" | tail -1)"
    echo "$out" | grep -E "VIOLATION|HARNESS-ERROR|KNOWN-FINDING" | head -5
done
