#!/bin/sh
# development helper: run the given tier for the listed properties sequentially and summarise
# usage: tools/run_some.sh <tier> C05 C06 ...
cd "$(dirname "$0")/.."
TIER="$1"; shift
for id in "$@"; do
    s=$(date +%s)
    out=$(./check "$id" --tier "$TIER" 2>&1); rc=$?
    e=$(date +%s)
    echo "$id rc=$rc wall=$((e-s))s :: $(echo "$out" | tail -1)"
    echo "$out" | grep -E "VIOLATION|HARNESS-ERROR|KNOWN-FINDING|condition=" | cut -c1-300 | head -8
done
