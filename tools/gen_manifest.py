#!/usr/bin/env python3
"""Regenerates /verif/MANIFEST.json from the table below (single source of truth for what is claimed)."""
import json
import os

ROOT = os.path.dirname(os.path.dirname(os.path.abspath(__file__)))
ALL = [f"C{i:02d}" for i in range(1, 21)]

CLAIMED = {
    "C18": dict(
        text="Bounded symbolic execution (CrossHair/z3): at the backend API the real PathIO and AsyncPathIO over ModelPath objects (POSIX reference model with pathlib's surface, validated exhaustively against the real "
             "filesystem each run) give the same outcome and tree for every operation from every tree of a 51-tree universe; behind the real dispatcher MemoryPathIO, PathIO and AsyncPathIO give the same reply codes, "
             "transferred bytes / listing entries and resulting tree for every client-visible operation, and a failing command changes nothing.",
        note="Trusted: CrossHair/z3; ModelFS as the filesystem (validated one step deep against the real one, natively, every run); stubbed executor. NOT APPLICABLE part: the real filesystem on sequences longer than one step "
             "and real thread interleavings of AsyncPathIO (kernel / threads cannot be encoded).",
        technique="bounded symbolic execution of the real Python code (CrossHair 0.0.110 + z3): differential harness over backends against a validated reference model",
        design_ref="DESIGN.md section 3 C18",
    ),
    "C09": dict(
        text="Bounded symbolic execution (CrossHair/z3) of the real Client.upload / download / list(recursive) / remove and all the client methods below them on top of a model FTP peer replacing only "
             "Client.command and Client.get_stream; tree shape, destination, write_into and working directory symbolic: remote/local tree afterwards equals the documented image exactly, recursive listing "
             "returns each entry once with a usable path, remove deletes exactly the subtree. The peer is an MLSD server or, symbolically chosen, a LIST-only server; two-operation histories on one client session (upload, change directory, upload; upload, remove, upload; upload, download back).",
        note="Trusted: CrossHair/z3, the model peer (reply codes as in C05's reference model), MemoryPathIO as local side. Outside: deeper / wider trees, real local filesystem semantics, symlinks, the wire level.",
        technique="bounded symbolic execution of the real Python code (CrossHair 0.0.110 + z3) against a specification function for the documented destination",
        design_ref="DESIGN.md section 3 C09",
    ),
    "C19": dict(
        text="Bounded symbolic execution (CrossHair/z3) of every client parser on class-representative garbage and on every small mutation of valid lines (parse_list_line: only ValueError or a well-typed result; "
             "parse_mlsx_line total on symbolic Unicode; PASV/EPSV/257 parsers: ordinary exceptions only; parse_response terminates on every line sequence), of Client.list on hostile listings, and of the real "
             "dispatcher on undecodable / truncated / over-long control lines after every verb prefix with a concurrent second session. Native auxiliary (measured, not a solver verdict): every client parser answers within a deadline on lines containing a 64-character run of one character.",
        note="Trusted: CrossHair/z3; inputs are exhaustive over the stated alphabets and windows (regular expressions and strptime make free symbolic text intractable). Outside: longer garbage, peers that never send EOL/EOF (C16).",
        technique="bounded symbolic execution of the real Python code (CrossHair 0.0.110 + z3): parser robustness harnesses over alphabet products and mutation windows",
        design_ref="DESIGN.md section 3 C19",
    ),
    "C08": dict(
        text="Bounded symbolic execution (CrossHair/z3), pair by pair: the command line every client method builds for a SYMBOLIC Unicode name -> real parse_command -> get_paths addresses exactly that name; "
             "the client's 257 parser inverts RFC-959 quote doubling for symbolic names and the real server's PWD reply decodes to the same directory; MLSx line round trip on symbolic names; LIST line round trip and "
             "a whole life cycle (MKD..RMD) through the real dispatcher over a class-representative alphabet. Twelve names on which Unicode normalisation / case folding is not the identity go through PWD, the life cycle, LIST and MLSx and the stored name is compared.",
        note="Trusted: CrossHair/z3 (string model, one upstream equality bug patched). Known finding (open): LIST fallback drops leading spaces of a name. Outside: names beyond the length bounds, non-utf-8 encodings, filesystem normalisation.",
        technique="bounded symbolic execution of the real Python code (CrossHair 0.0.110 + z3): encoder/decoder pair harnesses on symbolic strings",
        design_ref="DESIGN.md section 3 C08",
    ),
    "C07": dict(
        text="z3 over the CURRENT source of build_list_mtime / parse_ls_date / format_date_time executed by an AST interpreter on civil-field integers (every mtime / server-now / client-now in 1971..2104, skew <= 1 h): "
             "minute precision inside the half year, day precision otherwise, form chosen exactly by age, only ValueError; format model validated exhaustively against the real library, repository vectors through both, "
             "witnesses replayed on the real functions. CrossHair for the MLSx / LIST field round trip with a symbolic size and for MLSD/LIST/MLST completeness through the real dispatcher.",
        note="Trusted: z3, pysym and its date models (fixed-offset zone shared by both sides), CrossHair. Outside: DST/zone changes, years outside 1971..2104, non-C locales, the exempted boundary day.",
        technique="AST-to-SMT symbolic execution of the real source (pysym + z3) for the date plane; CrossHair for fields and completeness",
        design_ref="DESIGN.md section 3 C07",
    ),
    "C15": dict(
        text="z3 over the CURRENT source of Throttle / ThrottleStreamIO executed by an AST interpreter (reals; symbolic chunk sizes, I/O durations, gaps, oversleeps): cumulative bound at every I/O "
             "start for every level of a stack, shared limit over every interleaving of two streams, independence of clones, no delay when off, no unnecessary delay; vacuity guard, translator validation "
             "against the real classes, every witness replayed on the real classes in exact rational arithmetic. Plus CrossHair on the real dispatcher / USER / PASV / EPSV / Client for which Throttle objects each stream carries. The shared-limit query also runs with a tighter private limit per stream below the shared one.",
        note="Trusted: z3, the interpreter (pysym) and its environment models (clock, sleep with oversleep, concurrent join), validated against the real classes on concrete schedules each run. "
             "Outside: more than 6 sequential I/Os, IEEE-754 rounding, limits outside the grid, more than two streams on one limit.",
        technique="AST-to-SMT symbolic execution of the real source (pysym + z3, bounded unrolling) and CrossHair for the wiring",
        design_ref="DESIGN.md section 3 C15",
    ),
    "C17": dict(
        text="Bounded symbolic execution (CrossHair/z3) of two real dispatcher sessions on one Server: frame condition per verb (B's whole Connection container, transcript and data connection untouched "
             "while A executes one command from symbolic states of both; B's next PWD answers from B's own state), delivery of accepted data connections to the owning session, and two real Clients over "
             "SimNet interleaved by symbolic per-session latencies compared with their solo runs (results equal, final tree = union). No value stored under the same key in two sessions may be the same object unless immutable or shared by design; each backend instance is bound to its own session.",
        note="Trusted: CrossHair/z3, scripted channels, SimNet. Outside: more than two sessions, overlapping paths, interleavings finer than network deliveries in the pair harness.",
        technique="bounded symbolic execution of the real Python code (CrossHair 0.0.110 + z3): two-session frame condition + interleaved pairs",
        design_ref="DESIGN.md section 3 C17",
    ),
    "C12": dict(
        text="Bounded symbolic execution (CrossHair/z3) of the real Server (start, dispatcher with its finally block, passive listeners, workers, close) serving the real Client over a simulated "
             "network, cut at a SYMBOLIC event-loop iteration by the peer vanishing or by Server.close(): afterwards no server-side transport, passive listener or backend file is open, the connection "
             "table is empty, port pool and slots are complete, and Server.close() completes leaving no task behind. Cut kinds: peer vanishes, control connection reset with a command unread, Server.close(); a restarted upload/download script runs on a backend whose calls suspend; the ledger is also taken at the instant close() returns.",
        note="Trusted: CrossHair/z3, SimNet (TCP contract; start_server leaks a listener cancelled after binding, like asyncio), SpyPathIO. Each cut point is a separate path; the solver certifies none is skipped. "
             "Outside: several sessions cut at once, TLS, real file descriptors.",
        technique="bounded symbolic execution of the real Python code (CrossHair 0.0.110 + z3): symbolic crash point (loop iteration)",
        design_ref="DESIGN.md section 3 C12",
    ),
    "C16": dict(
        text="Bounded symbolic execution (CrossHair/z3) of the real dispatcher, StreamIO/ThrottleStreamIO timeouts and ConnectionConditions(wait=True) on a virtual-time loop with SYMBOLIC "
             "idle/socket/wait_future timeouts and gaps (integer ms): drop at exactly last command + idle_timeout and never earlier, 425 at exactly + wait_future_timeout with the session continuing, "
             "stalled data connection (built by the real PASV/EPSV handler) given up exactly socket_timeout after it last moved, blocked control write bounded by socket_timeout, clean ledger afterwards.",
        note="Trusted: CrossHair/z3, VLoop's integer virtual clock (real asyncio wait_for/timeouts run on it unchanged), scripted sockets. Ties at the same instant accepted either way. "
             "Outside: float timeouts, path_timeout, kernel buffering.",
        technique="bounded symbolic execution of the real Python code (CrossHair 0.0.110 + z3): symbolic virtual time",
        design_ref="DESIGN.md section 3 C16",
    ),
    "C14": dict(
        text="Bounded symbolic execution (CrossHair/z3) of the real dispatcher, abor, worker decorator and transfer workers with ABOR arriving at a symbolic event-loop iteration after the "
             "150 mark (data connection made, withheld, or made late): transcript after 150 is exactly [completion, 226] / [426, 226] / [425, 226], no teardown, data connection closed, "
             "only a prefix delivered or stored, follow-up transfer / PWD / second ABOR succeed. The same on a backend whose calls suspend, so that ABOR can arrive inside a backend call of the worker; when the session has ended the transfer's data connection is closed whoever held it.",
        note="Trusted: CrossHair/z3, VLoop iteration hook, scripted channels. Each arrival point is a separate path (the solver certifies that none in the bound is skipped). "
             "Outside: ABOR pipelined before the 150 mark, files > 7 bytes, concurrent transfers on one session.",
        technique="bounded symbolic execution of the real Python code (CrossHair 0.0.110 + z3): symbolic arrival point (loop iteration) of ABOR",
        design_ref="DESIGN.md section 3 C14",
    ),
    "C13": dict(
        text="Bounded symbolic execution (CrossHair/z3) of every storage-touching command through the real dispatcher on a spying MemoryPathIO whose k-th backend call (k symbolic) "
             "raises OSError through the real universal_exception wrapper: exactly one final reply 451 and no success reply, a detached data connection is closed, no file left open, "
             "follow-up commands work; end to end over SimNet the real client gets 451 instead of hanging and a parallel session is unaffected. What the failing call raises is a parameter too (EIO, a timeout, ValueError, ENOENT, RuntimeError).",
        note="Trusted: CrossHair/z3, SpyPathIO fault injection, scripted channels, SimNet. Outside: backends that hang instead of failing, faults in several non-adjacent calls.",
        technique="bounded symbolic execution of the real Python code (CrossHair 0.0.110 + z3): symbolic fault position",
        design_ref="DESIGN.md section 3 C13",
    ),
    "C01": dict(
        text="Bounded symbolic execution (CrossHair/z3) of STOR/APPE/RETR through the real dispatcher, workers, AsyncStreamIterator, ThrottleStreamIO and MemoryPathIO with symbolic "
             "payload length, block size, restart offset (real REST), old length, network segmentation and short-read sizes against a POSIX reference (exact stored bytes, file[off:] delivered "
             "in order, data socket closed, 150 then 226, no file left open, MLST after 226 shows the new size); mangle-prone byte values exhaustively; the real Client's "
             "upload/append/download streams end to end over a simulated network. Also: the same transfers on a backend whose calls suspend (the 226 is not written before the stored file's close has completed), and two sessions on one server (what B stored or replaced is what A downloads and stats afterwards).",
        note="Trusted: CrossHair/z3, scripted data socket (read(n) returns an arbitrary non-empty prefix), SimNet (ordered, lossless). Outside: payloads > bound, block sizes > 3, TLS, other backends.",
        technique="bounded symbolic execution of the real Python code (CrossHair 0.0.110 + z3): differential harness against a POSIX write/read reference",
        design_ref="DESIGN.md section 3 C01",
    ),
    "C10": dict(
        text="Bounded symbolic execution (CrossHair/z3) of the real dispatcher / greeting / user / pass_ / MemoryUserManager / AvailableConnections with SYMBOLIC counter values "
             "(server-wide and two users; the holdings of all other sessions are symbolic integers, so the step is inductive in them): counters between commands equal start minus "
             "this session's holdings, 421/530 exactly at a zero counter and not counted, and every counter is back at its start value after QUIT, EOF, cancellation at a symbolic "
             "loop iteration, idle timeout or a raising handler, with no accounting exception logged.",
        note="Trusted: CrossHair/z3, scripted control channel, VLoop. Outside: custom user managers, more than two user accounts, more than two concurrent real sessions.",
        technique="bounded symbolic execution of the real Python code (CrossHair 0.0.110 + z3): inductive session harness over symbolic counters",
        design_ref="DESIGN.md section 3 C10",
    ),
    "C11": dict(
        text="Bounded symbolic execution (CrossHair/z3) of the real PASV/EPSV handlers, _start_passive_server and the dispatcher's finally block against a listener stub whose "
             "per-attempt outcome and errno are symbolic, from a symbolic pool (ports held elsewhere, retry priorities), with the session ending by QUIT, EOF or cancellation at a "
             "symbolic loop iteration: pool + live listener == configured ports between events and after the session; no listener or data connection left; exhaustion => 421.",
        note="Trusted: CrossHair/z3; the listener stub yields before and after binding like loop.create_server and, like it, leaks the listener if cancelled after binding. "
             "Outside: more than 3 ports / 4 attempts, real sockets.",
        technique="bounded symbolic execution of the real Python code (CrossHair 0.0.110 + z3): symbolic fault and cancellation points",
        design_ref="DESIGN.md section 3 C11",
    ),
    "C04": dict(
        text="Bounded symbolic execution (CrossHair/z3) of the real Permission.is_parent / User.get_permissions on symbolic permission paths and targets against an "
             "independent longest-prefix rule, and of the 13 permission-checked handlers through the real dispatcher with six symbolic permission bits and alias "
             "arguments: refused with exactly 550, tree/cwd unchanged and no mutating backend call iff the entry governing the reference-resolved target lacks the bit.",
        note="Trusted: CrossHair/z3, SpyPathIO ledger, the reference resolver and longest-prefix oracle. Outside: tables with more than three entries, paths beyond the {a,b} alphabet and depth bound.",
        technique="bounded symbolic execution of the real Python code (CrossHair 0.0.110 + z3): differential harness against a longest-prefix oracle",
        design_ref="DESIGN.md section 3 C04",
    ),
    "C02": dict(
        text="Bounded symbolic execution (CrossHair/z3) of the real Server.get_paths on symbolic path strings (character level) and on segment products over "
             "class representatives ('..', '.', '', backslash, drive / UNC shapes, '//' leads) for five base-path flavours, against an independent stack-machine "
             "resolution; plus every path handler through the real dispatcher on a spying backend (every backend path inside base, sibling tree untouched, PWD normalised). The path handed to the permission lookup is observed as well (normalised absolute form); names holding a backslash below a windows-flavoured base path are enumerated. Known finding (open): on a windows base path a backslash inside a name splits the real path while the virtual path keeps one segment.",
        note="Trusted: CrossHair/z3 and its execution of pathlib's pure-Python parsing (sys.intern stubbed to the identity). Outside: longer paths, symlinks, other Windows flavours.",
        technique="bounded symbolic execution of the real Python code (CrossHair 0.0.110 + z3): differential harness against a reference path resolver",
        design_ref="DESIGN.md section 3 C02",
    ),
    "C06": dict(
        text="Bounded symbolic execution (CrossHair/z3) of the real write_response/write_line -> parse_line/parse_response round trip (line-level alphabet, "
             "exhaustive; sentinel reply detects desynchronisation), rejection of a mismatching final line, Code.matches on fully symbolic code and mask strings, "
             "check_codes, the command() wait/expect loop, a real StreamReader cut at symbolic positions, and parse_command's verb/argument split. Multi-byte characters are placed at every small byte offset of body and final lines (byte vs character positions).",
        note="Trusted: CrossHair/z3; line content is exhaustive only over the stated line universe (free lines are searched, not exhausted). "
             "Outside: mismatching non-final lines, non-ASCII mask characters.",
        technique="bounded symbolic execution of the real Python code (CrossHair 0.0.110 + z3): encode/decode round-trip harness",
        design_ref="DESIGN.md section 3 C06",
    ),
    "C05": dict(
        text="Bounded symbolic execution (CrossHair/z3) of the real Server.dispatcher - one step per verb from a symbolic pre-state injected into the "
             "dispatcher's own Connection, plus 2-3 command sessions with a symbolic middle command - compared reply by reply, state by state and tree by tree "
             "with an independent sequential reference model; arguments of REST/TYPE/PROT/EPSV exhaustively over class-representative alphabets and searched over free Unicode.",
        note="Trusted: the reference model (vlib/hlib/model.py) as specification, CrossHair/z3, scripted channels, listener stub, MemoryPathIO as backend. "
             "Outside: sessions longer than 3 commands at session level, pipelining, arguments outside the stated universes.",
        technique="bounded symbolic execution of the real Python code (CrossHair 0.0.110 + z3) against a reference model: inductive step + short sessions",
        design_ref="DESIGN.md section 3 C05",
    ),
    "C03": dict(
        text="Bounded symbolic execution (CrossHair/z3) of one inductive step of the real Server.dispatcher per verb of the live command table, from "
             "an arbitrary (symbolic) session pre-state with symbolic login / password strings: 503 + untouched spy backend + unchanged state before login; "
             "a session is logged in afterwards only via a password-less USER or a matching PASS; USER drops the old login; a PWD probe confirms the gate.",
        note="Trusted: CrossHair/z3, the scripted control channel and listener stubs, SpyPathIO ledger; the pre-state generator over-approximates reachable "
             "states (logged => user). Outside: custom user managers, logins/passwords beyond the length bound, quick tier fixes the pending-rename dimension.",
        technique="bounded symbolic execution of the real Python code (CrossHair 0.0.110 + z3): inductive one-step harness per verb",
        design_ref="DESIGN.md section 3 C03",
    ),
    "C20": dict(
        text="Bounded symbolic execution (CrossHair/z3) of the real parse_command / Client.command / Client.login / Server.dispatcher: "
             "non-interference of log records in the password, for every password inside the length bound and every login outcome; "
             "'Confirmed over all paths' per condition, reachability twins against vacuity, counterexamples replayed natively.",
        note="Trusted: CrossHair's model of Python str/bytes (one upstream equality bug patched, see DESIGN 2.2), z3, the recording-logger "
             "and scripted-stream stubs. Outside: passwords longer than the bound, loggers other than aioftp's module loggers.",
        technique="bounded symbolic execution of the real Python code (CrossHair 0.0.110 + z3): non-interference harness",
        design_ref="DESIGN.md section 3 C20",
    ),
}

NOT_YET = "check not built yet in this revision of /verif (see DESIGN.md build order)"


def main():
    checks = []
    for pid in ALL:
        if pid in CLAIMED:
            c = CLAIMED[pid]
            checks.append({
                "property_id": pid,
                "quick_cmd": f"./check {pid} --tier quick",
                "thorough_cmd": f"./check {pid} --tier thorough",
                "evidence_file": f"/verif/evidence/{pid}.json",
                "replay_cmd_template": "/verif/.venv/bin/python {path}",
                "engine": "crosshair-z3",
                "level_claimed": {"category": "other", "text": c["text"], "design_ref": c["design_ref"]},
                "level_note": c["note"],
                "technique": c["technique"],
            })
    na = [{"property_id": p, "reason": NOT_YET} for p in ALL if p not in CLAIMED]
    m = {
        "version": 1,
        "setup_cmd": "./setup.sh",
        "hooks": {
            "guard": "AIOFTP_VERIF",
            "enable": "no source hook is needed: every stub is installed from the harness side by rebinding names in aioftp's module "
                      "namespaces (logger, time, asyncio.start_server, open_connection) or by passing duck-typed objects",
            "baseline_off_cmd": "cd /repo && /venv/bin/python -m pytest -ra -q -p no:cacheprovider --timeout=900",
            "source_commits": [],
            "add_only": True,
        },
        "engines": [
            {"name": "pysym-z3", "path": "/verif/vlib/pysym.py", "serves_properties": [p for p in ("C07", "C15") if p in CLAIMED],
             "kind_free_text": "AST interpreter executing the current source of arithmetic kernels over z3 terms (path forking by feasibility, bounded unrolling, modelled library calls)"},
            {"name": "crosshair-z3", "path": "/verif/vlib/runner.py", "serves_properties": sorted(CLAIMED),
             "kind_free_text": "CrossHair 0.0.110 symbolic execution of generated harnesses over the real aioftp code; z3 decides every branch; "
                               "one process per condition; native replay of every counterexample"},
        ],
        "checks": checks,
        "not_applicable": na,
        "notes": "Solver-based checking of the real code. Exit 0 = no violation inside the stated bounds, 1 = replayed violation, 3 = harness error.",
    }
    with open(os.path.join(ROOT, "MANIFEST.json"), "w") as f:
        json.dump(m, f, indent=1)
    print("claimed:", sorted(CLAIMED), "not applicable:", len(na))


if __name__ == "__main__":
    main()
