#!/bin/sh
# Build /verif/.venv: an overlay of the repository's own interpreter (/venv, python 3.12) plus
# crosshair-tool, z3-solver and cvc5 from the offline wheelhouse.  Idempotent; no network.
set -e
HERE="$(cd "$(dirname "$0")" && pwd)"
VENV="$HERE/.venv"
STAMP="$VENV/.verif-ok"
if [ -f "$STAMP" ] && env -u PYTHONPATH "$VENV/bin/python" -c "import crosshair, z3, aioftp" 2>/dev/null; then
    exit 0
fi
# several checks may start at once on a fresh restore: serialise the build
exec 9>"$HERE/.venv.lock"
flock 9
if [ -f "$STAMP" ] && "$VENV/bin/python" -c "import crosshair, z3, aioftp" 2>/dev/null; then
    exit 0
fi
rm -rf "$VENV"
/venv/bin/python -m venv "$VENV"
SP="$("$VENV/bin/python" -c 'import sysconfig; print(sysconfig.get_paths()["purelib"])')"
printf '%s\n' "import site; site.addsitedir('/venv/lib/python3.12/site-packages')" > "$SP/zz_repo_overlay.pth"
PIP_NO_INDEX=1 "$VENV/bin/python" -m pip install --quiet --no-index --find-links /opt/veriftools/wheels \
    crosshair-tool z3-solver cvc5 jsonschema >/dev/null
env -u PYTHONPATH "$VENV/bin/python" -c "import crosshair, z3, aioftp, sys; assert aioftp.__file__.startswith('/repo/'), aioftp.__file__"
touch "$STAMP"
