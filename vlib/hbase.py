"""Common harness preamble: environment stubs installed from the harness side (no source hook in aioftp).

Every stub here is part of every claim that uses it; the runner copies STUBS into the evidence files.
"""
import asyncio
import os
import sys
import time as _real_time
import types

# pathlib 3.12 interns every path segment: a C boundary at which CrossHair realises a symbolic string.  Interning is
# semantically the identity.
sys.intern = lambda s: s

from . import chpatch  # noqa: E402

chpatch.apply()

import aioftp  # noqa: E402
from aioftp import client as cli  # noqa: E402
from aioftp import common as com  # noqa: E402
from aioftp import pathio  # noqa: E402
from aioftp import server as srv  # noqa: E402

from . import vloop  # noqa: E402,F401
from .vloop import VLoop, new_loop  # noqa: E402,F401

STUBS = [
    "sys.intern -> identity (pathlib 3.12 interns path segments; semantically the identity)",
    "aioftp.server.logger / aioftp.client.logger -> recording logger (stores (level, fmt, args))",
    "aioftp.pathio.time.time / aioftp.server.time.time -> fixed virtual wall clock (integer seconds)",
    "aioftp.server.time.localtime -> fixed zone UTC+05:30 (DST outside the claim); gmtime is the real one",
    "event loop -> vlib.vloop.VLoop (integer virtual clock, no selector, no threads)",
    "aioftp.client.datetime.datetime.now -> fixed harness clock in the same zone UTC+05:30",
] + chpatch.PATCHES

FIXED_NOW = 1700000000


class RecLog:
    """Recording logger: stores (level, fmt, args); never formats."""

    def __init__(self):
        self.records = []

    def _rec(self, level, fmt, *args, **kw):
        self.records.append((level, fmt, args))

    def debug(self, fmt, *a, **k):
        self._rec("debug", fmt, *a)

    def info(self, fmt, *a, **k):
        self._rec("info", fmt, *a)

    def warning(self, fmt, *a, **k):
        self._rec("warning", fmt, *a)

    def error(self, fmt, *a, **k):
        self._rec("error", fmt, *a)

    def exception(self, fmt, *a, **k):
        et = sys.exc_info()[0]
        self.records.append(("exception", fmt, a + ((et.__name__,) if et is not None else ())))

    def critical(self, fmt, *a, **k):
        self._rec("critical", fmt, *a)


SERVER_LOG = RecLog()
CLIENT_LOG = RecLog()
srv.logger = SERVER_LOG
cli.logger = CLIENT_LOG

WALL = types.SimpleNamespace(now=FIXED_NOW)
ZONE = 5 * 3600 + 1800  # the harness's local zone: UTC+05:30, fixed offset, shared by server and client
pathio.time = types.SimpleNamespace(time=lambda: WALL.now)
srv.time = types.SimpleNamespace(
    time=lambda: WALL.now,
    gmtime=_real_time.gmtime,
    localtime=lambda t=None: _real_time.gmtime((WALL.now if t is None else t) + ZONE),
    strftime=_real_time.strftime,
)


def conc(x, lo, hi):
    """Turn a small symbolic integer into a concrete one by forking on its value (one path per value, found by bisection):
    data derived from it (slices of byte strings, loop bounds) then stays concrete instead of dragging symbolic values
    through C-level code."""
    if x < lo or x > hi:
        raise ValueError("value outside the stated range")
    while lo < hi:
        mid = (lo + hi) // 2
        if x <= mid:
            hi = mid
        else:
            lo = mid + 1
    return lo


import datetime as _real_datetime  # noqa: E402


class datetime(_real_datetime.datetime):  # noqa: N801  (keeps the class name 'datetime')
    """datetime.datetime whose now() is the harness clock: CrossHair would otherwise make it a nondeterministic source"""

    @classmethod
    def now(cls, tz=None):
        return _real_datetime.datetime.fromtimestamp(WALL.now + ZONE, _real_datetime.timezone.utc).replace(tzinfo=None)


cli.datetime = types.SimpleNamespace(datetime=datetime, timedelta=_real_datetime.timedelta, timezone=_real_datetime.timezone)


def reset_logs():
    SERVER_LOG.records.clear()
    CLIENT_LOG.records.clear()


# ---------------------------------------------------------------------------------------------------------------
# path accounting: the fd is opened at import (before CrossHair's side-effect auditing starts); os.write on an
# already-open fd raises no audit event.
_COUNT_FD = None
COUNTING = False  # switched on by the last line of every generated harness (warm-up runs are not counted)


def _open_counter():
    global _COUNT_FD
    p = os.environ.get("VERIF_PATHLOG")
    if p and _COUNT_FD is None:
        _COUNT_FD = os.open(p, os.O_WRONLY | os.O_CREAT | os.O_APPEND, 0o644)


_open_counter()


def path_done(cond, sig=""):
    """Record that one explored path of condition `cond` reached the end of the aioftp call.  `sig` must be concrete."""
    if _COUNT_FD is not None and COUNTING:
        try:
            from crosshair.tracers import NoTracing

            with NoTracing():
                if type(sig) is not str:
                    sig = "?"
                os.write(_COUNT_FD, (cond + "\t" + sig + "\n").encode("utf-8", "replace"))
        except Exception:  # noqa: BLE001
            pass


# ---------------------------------------------------------------------------------------------------------------
# scripted stream stubs for CH-step / CH-session
class FakeTransport:
    def __init__(self, peer=("10.0.0.9", 5555), sock=("10.0.0.1", 21)):
        self.peer, self.sock = peer, sock

    def get_extra_info(self, name, default=None):
        return {"peername": self.peer, "sockname": self.sock}.get(name, default)


class ScriptReader:
    """Environment stub for asyncio.StreamReader.

    script: list of (gap_ms, bytes) items.  readline() returns the next item after `gap` virtual ms; read(n) returns an
    arbitrary non-empty prefix of what is left of the current item (length = next value of `cuts`, clamped to
    1..min(n, remaining)) - the documented contract of StreamReader.read.  After the script: EOF (b'') or block for ever.
    """

    def __init__(self, script, eof=True, cuts=None):
        self.script = [(g, b) for g, b in script]
        self.eof = eof
        self.cuts = list(cuts or [])
        self.buf = b""
        self.reads = 0

    async def _next_item(self):
        if not self.script:
            if self.eof:
                await asyncio.sleep(0)
                return None
            await asyncio.get_running_loop().create_future()  # blocks until cancelled
        gap, data = self.script.pop(0)
        await asyncio.sleep(gap)
        return data

    async def readline(self):
        self.reads += 1
        item = await self._next_item()
        return b"" if item is None else item

    async def read(self, n=-1):
        self.reads += 1
        if n is None or n < 0:
            # StreamReader.read(-1): everything until end of stream
            out = self.buf
            self.buf = b""
            while True:
                item = await self._next_item()
                if item is None:
                    return out
                out += item
        if not self.buf:
            item = await self._next_item()
            if item is None:
                return b""
            self.buf = item
        else:
            await asyncio.sleep(0)
        limit = len(self.buf) if n is None or n < 0 else min(n, len(self.buf))
        k = limit
        if self.cuts:
            c = self.cuts.pop(0)
            if c < 1:
                c = 1
            if c < k:
                k = c
        out, self.buf = self.buf[:k], self.buf[k:]
        return out


class CollectWriter:
    """Environment stub for asyncio.StreamWriter: collects chunks, records close()."""

    def __init__(self, transport=None, block_after=None):
        self.transport = transport or FakeTransport()
        self.chunks = []
        self.times = []
        self.closed = False
        self.closed_at = None
        self.close_calls = 0
        self.block_after = block_after  # number of writes after which drain() never returns

    def write(self, data):
        self.chunks.append(bytes(data))
        try:
            self.times.append(asyncio.get_running_loop().time())
        except RuntimeError:
            self.times.append(None)

    async def drain(self):
        if self.block_after is not None and len(self.chunks) > self.block_after:
            await asyncio.get_running_loop().create_future()
        await asyncio.sleep(0)

    def close(self):
        if not self.closed:
            try:
                self.closed_at = asyncio.get_running_loop().time()
            except RuntimeError:
                pass
        self.closed = True
        self.close_calls += 1

    def data(self):
        return b"".join(self.chunks)


class FakeListener:
    """Listener stub for CH-step: what asyncio.start_server returns."""

    def __init__(self, host="10.0.0.1", port=40001, family=2):
        self.closed = False
        self.port = port

        class S:
            def getsockname(s):
                return (host, port)

        S.family = family
        self.sockets = [S()]

    def close(self):
        self.closed = True

    def is_serving(self):
        return not self.closed

    async def wait_closed(self):
        pass


def reply_codes(writer):
    """Control-channel transcript as list of (code, sep, text) from a CollectWriter."""
    out = []
    for line in writer.data().split(b"\r\n"):
        if line:
            s = line.decode("utf-8", "replace")
            out.append((s[:3], s[3:4], s[4:]))
    return out


# ---------------------------------------------------------------------------------------------------------------
class SpyPathIO(aioftp.MemoryPathIO):
    """The real MemoryPathIO with a ledger: counts backend calls, records every path argument, tracks open files,
    and raises OSError at the k-th call (through the real universal_exception wrappers)."""

    calls = 0
    paths = []
    opened = []
    closed = []
    fail_at = None  # 1-based index of the backend call that fails
    fail_repeat = False
    log = []
    latency = 0  # virtual ms every backend call takes (0: the call never suspends, like MemoryPathIO; > 0: like AsyncPathIO)
    lat_ops = None  # None = every call, else the set of call names that take `latency`
    close_done = []  # loop time at which each close() had completed
    fail_kind = 0  # index into FAIL_KINDS: what the failing backend call raises
    FAIL_KINDS = [
        lambda: OSError(5, "injected backend failure"),
        lambda: TimeoutError("injected backend timeout"),  # what OSError(ETIMEDOUT) builds; asyncio.TimeoutError on 3.11+
        lambda: ValueError("injected backend failure"),
        lambda: FileNotFoundError(2, "injected backend failure"),
        lambda: RuntimeError("injected backend failure"),
    ]

    @classmethod
    def reset(cls, fail_at=None, fail_repeat=False, latency=0, lat_ops=None, fail_kind=0):
        cls.calls = 0
        cls.paths = []
        cls.opened = []
        cls.closed = []
        cls.fail_at = fail_at
        cls.fail_repeat = fail_repeat
        cls.log = []
        cls.latency = latency
        cls.lat_ops = lat_ops
        cls.close_done = []
        cls.fail_kind = fail_kind

    @classmethod
    async def _lat(cls, name):
        if cls.latency and (cls.lat_ops is None or name in cls.lat_ops):
            await asyncio.sleep(cls.latency)

    @classmethod
    def _tick(cls, name, path=None):
        cls.calls += 1
        cls.log.append(name)
        if path is not None:
            cls.paths.append(path)
        if cls.fail_at is not None:
            if cls.calls == cls.fail_at or (cls.fail_repeat and cls.calls > cls.fail_at):
                raise cls.FAIL_KINDS[cls.fail_kind]()

    @classmethod
    def open_files(cls):
        return len(cls.opened) - len(cls.closed)


def _wrap_spy():
    from aioftp.pathio import universal_exception, defend_file_methods

    base = aioftp.MemoryPathIO

    def mk(name, has_path=True):
        inner = getattr(getattr(base, name), "__wrapped__", getattr(base, name))  # strip universal_exception

        @universal_exception
        async def method(self, *args, **kwargs):
            SpyPathIO._tick(name, args[0] if (has_path and args) else None)
            await SpyPathIO._lat(name)
            return await inner(self, *args, **kwargs)

        method.__name__ = name
        return method

    for name in ("exists", "is_dir", "is_file", "mkdir", "rmdir", "unlink", "stat"):
        setattr(SpyPathIO, name, mk(name))

    rename_inner = getattr(base.rename, "__wrapped__", base.rename)

    @universal_exception
    async def rename(self, source, destination):
        SpyPathIO._tick("rename", source)
        SpyPathIO.paths.append(destination)
        await SpyPathIO._lat("rename")
        return await rename_inner(self, source, destination)

    SpyPathIO.rename = rename

    open_inner = getattr(base._open, "__wrapped__", base._open)

    @universal_exception
    async def _open(self, path, mode="rb", *args, **kwargs):
        SpyPathIO._tick("open", path)
        await SpyPathIO._lat("open")
        f = await open_inner(self, path, mode, *args, **kwargs)
        SpyPathIO.opened.append(path)
        return f

    SpyPathIO._open = _open

    for name in ("seek", "write", "read"):
        inner = getattr(getattr(base, name), "__wrapped__", getattr(base, name))  # universal_exception stripped; defend_file_methods kept

        def mkf(name, inner):
            @universal_exception
            async def method(self, file, *args, **kwargs):
                SpyPathIO._tick(name)
                await SpyPathIO._lat(name)
                return await inner(self, file, *args, **kwargs)

            return method

        setattr(SpyPathIO, name, mkf(name, inner))

    close_inner = getattr(base.close, "__wrapped__", base.close)

    @universal_exception
    async def close(self, file):
        SpyPathIO.closed.append(1)
        SpyPathIO._tick("close")
        await SpyPathIO._lat("close")
        r = await close_inner(self, file)
        try:
            SpyPathIO.close_done.append(asyncio.get_running_loop().time())
        except RuntimeError:
            SpyPathIO.close_done.append(None)
        return r

    SpyPathIO.close = close

    base_list = base.list

    def list_(self, path):
        lister = base_list(self, path)
        SpyPathIO.paths.append(path)
        orig_anext = type(lister).__anext__

        return _SpyLister(lister)

    SpyPathIO.list = list_


class _SpyLister(com.AsyncListerMixin):
    def __init__(self, inner):
        self.inner = inner

    def __aiter__(self):
        return self

    async def __anext__(self):
        try:
            SpyPathIO._tick("list_next")
        except Exception as e:  # noqa: BLE001  as the real listers' universal_exception wrapper does
            raise aioftp.PathIOError(reason=sys.exc_info()) from e
        return await self.inner.__anext__()


_wrap_spy()


def snapshot(fs_state):
    """Canonical snapshot of a MemoryPathIO tree: nested tuple (type, name, content)."""

    def node(n):
        if n.type == "dir":
            return ("dir", n.name, tuple(node(c) for c in n.content))
        return ("file", n.name, bytes(n.content.getbuffer()))

    return tuple(node(n) for n in fs_state)
