"""Verification support library for aio-libs/aioftp (solver-based checking of the real code)."""
