"""Deterministic in-memory network for asyncio streams: real StreamReader / StreamReaderProtocol / StreamWriter
joined through fake transports.  Integer latencies (virtual ms).  A ledger records every transport and listener.

Contract assumed (TCP): ordered, lossless delivery; EOF after close; start_server yields once before binding and once
after (as loop.create_server does: gather of the address look-ups, then sleep(0)); a busy port raises OSError(EADDRINUSE).
"""
import asyncio
import errno


class MemTransport(asyncio.Transport):
    def __init__(self, net, loop, protocol, local, remote, side):
        super().__init__()
        self.net, self.loop, self.protocol = net, loop, protocol
        self.local, self.remote = local, remote
        self.side = side  # 'server' | 'client'
        self.peer = None
        self.closing = False
        self.closed = False
        self.eof_sent = False
        self.eof_received = False
        self.received = []  # bytes delivered to this side
        self.blocked = False  # when True writes are never drained (peer stopped reading)
        self._drain_waiters = []
        self._last_when = 0
        net.transports.append(self)

    def get_extra_info(self, name, default=None):
        return {"peername": self.remote, "sockname": self.local, "socket": None}.get(name, default)

    def is_closing(self):
        return self.closing

    def get_write_buffer_size(self):
        return 0

    def get_write_buffer_limits(self):
        return (0, 0)

    def set_write_buffer_limits(self, high=None, low=None):
        pass

    def pause_reading(self):
        pass

    def resume_reading(self):
        pass

    def is_reading(self):
        return True

    def can_write_eof(self):
        return True

    def set_protocol(self, p):
        self.protocol = p

    def get_protocol(self):
        return self.protocol

    def write(self, data):
        if self.closing or not data:
            return
        data = bytes(data)
        self.net.log.append(("write", self.side, self.local[1], len(data)))
        if self.blocked:
            # the peer does not read: flow control pauses the writer for ever
            self.protocol.pause_writing()
            return
        for seg, delay in self.net.segment(self, data):
            self._schedule(delay, self.peer._deliver, seg)

    def _deliver(self, seg):
        if not self.closed and not self.net.dead(self):
            self.received.append(seg)
            self.protocol.data_received(seg)

    def write_eof(self):
        if not self.eof_sent:
            self.eof_sent = True
            self._schedule(self.net.latency(self), self.peer._deliver_eof)

    def _schedule(self, delay, cb, *args):
        # TCP: ordered delivery per direction, whatever the per-segment delays are
        when = self.loop.time() + delay
        if when < self._last_when:
            when = self._last_when
        self._last_when = when
        self.loop.call_at(when, cb, *args)

    def _deliver_eof(self):
        if not self.closed and not self.net.dead(self):
            self.eof_received = True
            keep = self.protocol.eof_received()
            if not keep:
                self.close()

    def close(self):
        if self.closing:
            return
        self.closing = True
        self.write_eof()
        self.loop.call_soon(self._lost, None)

    def abort(self):
        self.close()

    def _lost(self, exc):
        if not self.closed:
            self.closed = True
            self.protocol.connection_lost(exc)

    def vanish(self):
        """The host of this endpoint disappears: the peer sees EOF/connection lost; nothing more is delivered here."""
        if not self.closed:
            self.closing = True
            self.closed = True
            if not self.eof_sent:
                self.eof_sent = True
                self.loop.call_soon(self.peer._deliver_eof)


class _Sock:
    def __init__(self, host, port, family=2):
        self.family = family
        self._name = (host, port)

    def getsockname(self):
        return self._name


class MemServer:
    def __init__(self, net, cb, host, port):
        self.net, self.cb, self.host, self.port = net, cb, host, port
        self.closed = False
        self.sockets = [_Sock(host, port, net.family)]
        net.all_listeners.append(self)

    def close(self):
        if not self.closed:
            self.closed = True
            if self.net.listeners.get(self.port) is self:
                self.net.listeners.pop(self.port, None)

    async def wait_closed(self):
        await asyncio.sleep(0)

    def is_serving(self):
        return not self.closed


class SimNet:
    def __init__(self, seg=None, lat=None, family=2, busy=()):
        self.listeners = {}
        self.all_listeners = []
        self.transports = []
        self.log = []
        self.next_ephemeral = 40000
        self._seg, self._lat = seg, lat
        self.family = family
        self.busy = set(busy)  # ports held by "somebody else"
        self.dead_sides = set()
        self.start_calls = 0
        self.fail_start = None  # callable(n, port) -> exception or None

    def dead(self, tr):
        return tr.side in self.dead_sides

    def latency(self, tr):
        return self._lat(tr) if self._lat else 1

    def segment(self, tr, data):
        if self._seg:
            return self._seg(tr, data)
        return [(data, self.latency(tr))]

    async def start_server(self, cb, host=None, port=0, **kw):
        self.start_calls += 1
        n = self.start_calls
        await asyncio.sleep(0)
        if not port:
            port = self.next_ephemeral
            self.next_ephemeral += 1
        if self.fail_start is not None:
            exc = self.fail_start(n, port)
            if exc is not None:
                raise exc
        if port in self.listeners or port in self.busy:
            raise OSError(errno.EADDRINUSE, "address in use")
        s = MemServer(self, cb, host, port)
        self.listeners[port] = s
        await asyncio.sleep(0)
        return s

    async def open_connection(self, host=None, port=None, **kw):
        loop = asyncio.get_running_loop()
        await asyncio.sleep(0)
        srv = self.listeners.get(port)
        if "client" in self.dead_sides or (port == 21 and "client-ctrl" in self.dead_sides):
            raise ConnectionAbortedError(errno.ECONNABORTED, "client host is gone")
        if srv is None:
            raise ConnectionRefusedError(errno.ECONNREFUSED, "refused")
        cport = self.next_ephemeral
        self.next_ephemeral += 1
        creader = asyncio.StreamReader(loop=loop)
        cproto = asyncio.StreamReaderProtocol(creader, loop=loop)
        sreader = asyncio.StreamReader(loop=loop)
        sproto = asyncio.StreamReaderProtocol(sreader, srv.cb, loop=loop)
        ct = MemTransport(self, loop, cproto, ("10.0.0.9", cport), (srv.host, port), "client")
        st = MemTransport(self, loop, sproto, (srv.host, port), ("10.0.0.9", cport), "server")
        ct.peer, st.peer = st, ct
        cproto.connection_made(ct)
        sproto.connection_made(st)
        cwriter = asyncio.StreamWriter(ct, cproto, creader, loop)
        return creader, cwriter

    # -- ledger
    def client_vanish(self):
        self.dead_sides.add("client")
        for t in list(self.transports):
            if t.side == "client":
                t.vanish()

    def open_server_transports(self):
        return [t for t in self.transports if t.side == "server" and not t.closing]

    def open_listeners(self, exclude_ports=()):
        return [s for s in self.all_listeners if not s.closed and s.port not in exclude_ports]
