"""C08 - file and directory names mean the same thing in every command and reply."""
import aioftp
from aioftp import client as cli

from .. import hgen
from ..hbase import STUBS
from ..hlib import c08 as L
from .common import BASE_ASSUMPTIONS, ROOT, Cond, Spec
from ..runner import innermost as U


def build(tier):
    q = tier == "quick"
    src = hgen.preamble("C08", tier, ROOT) + "import vlib.hlib.c08 as L\n"
    conds = []
    T = 250 if q else 1500
    n = 3 if q else 5
    # 1. command builders (Mode S: free Unicode names)
    for mi, m in enumerate(L.METHODS):
        name = f"cmd_{m}"
        src += hgen.cond(name, "name: str", [f"len(name) <= {n}", "L.valid_name(name)"], f"L.command_carries_name({mi}, name)", sig="hb.KEY")
        conds += [Cond(name, "prop", T, group="commands"), Cond(name + "__twin", "twin", 60, group="commands")]
    # 2. 257 quoting: client parser alone (Mode S) and the real server -> real client (Mode A)
    src += hgen.cond("parse_directory", "name: str, tail_i: int", [f"len(name) <= {4 if q else 5}", "L.valid_name(name)", "0 <= tail_i <= 2"], "L.parse_directory(name, tail_i)")
    conds += [Cond("parse_directory", "prop", T, group="pwd"), Cond("parse_directory__twin", "twin", 60, group="pwd")]
    A = len(L.ALPH) if not q else 8
    for i in range(A):
        for fn in ("pwd_roundtrip", "list_name") + (() if q and i >= 4 else ("session_names",)):
            name = f"{fn}_{i:02d}"
            extra = ", is_dir: bool" if fn == "list_name" else ""
            args = ", is_dir" if fn == "list_name" else ""
            pre = [f"-1 <= j < {A} and -1 <= k < {A}", "j >= 0 or k < 0"] + (["k < 0"] if fn == "session_names" else [])  # the 10-command life cycle costs seconds per name: names of <= 2 characters
            src += hgen.cond(name, "j: int, k: int" + extra, pre, f"L.{fn}({i}, j, k{args})", sig="hb.KEY")
            conds += [Cond(name, "prop", T, group=fn), Cond(name + "__twin", "twin", 60, group=fn)]
    # 2b. names on which Unicode normalisation / case folding is not the identity (Mode A): PWD round trip, life cycle, LIST and MLSx
    # name fields, and the name the backend ends up storing
    src += hgen.cond("uni_names", "ui: int, which: int", [f"0 <= ui < {len(L.UNI)}", "0 <= which <= 4"], "L.uni_names(ui, which)", sig="hb.KEY")
    conds += [Cond("uni_names", "prop", T, group="unicode"), Cond("uni_names__twin", "twin", 60, group="unicode")]
    # 3. MLSx (Mode S)
    src += hgen.cond("mlsx_name", "name: str, is_dir: bool", [f"len(name) <= {n}", "L.valid_name(name)"], "L.mlsx_name(name, is_dir)")
    conds += [Cond("mlsx_name", "prop", T, group="mlsx"), Cond("mlsx_name__twin", "twin", 60, group="mlsx")]
    src += "\nfor _m in range(len(L.METHODS)):\n    L.command_carries_name(_m, 'a b')\nL.parse_directory('a\"', 1); L.pwd_roundtrip(0, 2, -1); L.mlsx_name('x y', True); L.list_name(2, 1, 2, False); L.session_names(2, 1, 3)\n"
    S, C = aioftp.Server, aioftp.Client
    return Spec(
        pid="C08", source=src, conds=conds,
        functions_encoded=[U(S.pwd), cli.BaseClient.parse_directory_response, C.get_current_directory, S.parse_command, S.get_paths, C.change_directory, C.make_directory, C.remove_directory, C.remove_file,
                           C.rename, C.upload_stream, C.append_stream, C.download_stream, C.stat, C.list, S.build_mlsx_string, cli.BaseClient.parse_mlsx_line, S.build_list_string,
                           cli.BaseClient.parse_list_line_unix, S.write_response, cli.BaseClient.parse_response],
        bounds={
            "command builders": f"name = any Unicode string of length 1..{n} without '/', NUL, CR, LF and without trailing whitespace, not '.' / '..' (symbolic string); each of {L.METHODS}",
            "257 quoting": f"client parser on a symbolic name of length <= {4 if q else 5} inside an RFC-959 quoted reply with three tails; real server CWD+PWD -> real client get_current_directory for every name of <= 3 characters over {L.ALPH[:A]}",
            "normalisation-sensitive names": f"{[ascii(x) for x in L.UNI]}: decomposed / precomposed pairs, singleton and compatibility decompositions, a composition exclusion, case-folding specials - PWD round trip, life cycle, LIST and MLSx name field, and the name the backend stores after MKD / STOR",
            "MLSx": f"symbolic name of length <= {n}, file or directory",
            "LIST fallback and whole life cycle": f"names of <= 3 (life cycle: <= 2) characters over the same alphabet: LIST line round trip; MKD, CWD, PWD, CDUP, STOR, MLST, RNFR/RNTO, DELE, RMD through the real dispatcher",
        },
        outside=["names longer than the bounds", "encodings other than utf-8", "normalisation by a real filesystem (case folding, NFC/NFD)", "LIST lines produced by other servers"],
        explanation=(
            "Pair by pair on the real code (CrossHair/z3): (1) the command line each client method builds for a symbolic name, fed to the real Server.parse_command and get_paths, addresses exactly /<name>; "
            "(2) the client's 257 parser inverts RFC-959 quote doubling for every symbolic name, and the real server's PWD reply after CWD decodes to the same directory through the real reply codec; "
            "(3) build_mlsx_string -> parse_mlsx_line returns the name; (4) build_list_string -> parse_list_line returns the name (LIST fallback); (5) one object lives a whole life cycle under the name."
        ),
        assumptions=BASE_ASSUMPTIONS,
        extra={"stubs": STUBS + ["client.command / get_stream replaced by recorders to capture the command text a method builds", "Line stub for the utf-8 codec (covered in C06/C20)"]},
    )
