"""C01 - transferred bytes are exact (STOR / APPE / RETR, whole or from a restart offset)."""
import aioftp
from aioftp import common as com
from aioftp import pathio

from .. import hgen
from ..hbase import STUBS
from ..hlib import c01 as L
from .common import BASE_ASSUMPTIONS, ROOT, Cond, Spec
from ..runner import innermost as U


def build(tier):
    q = tier == "quick"
    src = hgen.preamble("C01", tier, ROOT) + "import vlib.hlib.c01 as L\n"
    conds = []
    T = 250 if q else 1800
    nmax = 3 if q else 5
    bsmax = 2 if q else 3
    offs = [0, 2, 4] if q else [0, 1, 2, 4, 7]
    olds = [-1, 0, 3] if q else [-1, 0, 2, 3, 5]
    src += f"OFFS = {offs!r}\nOLDS = {olds!r}\n"
    params = "n: int, bs: int, c1: int, x1: int, x2: int"
    for verb in ("stor", "appe", "retr"):
        for li, oldlen in enumerate(olds):
            if verb == "retr" and oldlen < 0 and li > 0:
                continue
            for oi, off in enumerate(offs):
                name = f"{verb}_old{li}_off{oi}"
                pre = [f"0 <= n <= {nmax if verb != 'retr' else 0}", f"1 <= bs <= {bsmax}", "0 <= c1 <= n", "1 <= x1 <= bs and 1 <= x2 <= bs"]
                if q or verb == "retr":
                    pre.append("x2 == 1")
                if verb == "retr":
                    pre.append("c1 == 0")
                src += hgen.cond(name, params, pre, f"L.transfer({verb!r}, n, bs, {off}, {oldlen}, c1, x1, x2)", sig="hb.KEY")
                conds += [Cond(name, "prop", T, group=verb), Cond(name + "__twin", "twin", 60, group=verb)]
        name = f"{verb}_bytes"
        nb = 5 if q else 8
        src += hgen.cond(name, "b0: int, b1: int, bs: int", [f"0 <= b0 < {nb} and 0 <= b1 < {nb}", "bs == 1" if q else "1 <= bs <= 2"], f"L.data_independent({verb!r}, b0, b1, bs)", sig="hb.KEY")
        conds += [Cond(name, "prop", T, group="byte-values"), Cond(name + "__twin", "twin", 60, group="byte-values")]
    # the same transfers on a backend whose calls suspend (every backend call takes lat virtual ms), as AsyncPathIO's do:
    # the completion reply must not be written before the file is closed, and everything above must still hold
    for verb in ("stor", "appe", "retr"):
        name = f"{verb}_slow"
        src += hgen.cond(name, "n: int, oi: int, li: int, lat: int", [f"0 <= n <= {2 if q else nmax}", f"0 <= oi < {len(offs)} and 0 <= li < {len(olds)}", f"1 <= lat <= {1 if q else 3}"],
                         f"L.transfer_slow({verb!r}, n, OFFS[L.hb.conc(oi, 0, {len(offs) - 1})], OLDS[L.hb.conc(li, 0, {len(olds) - 1})], lat)", sig="hb.KEY")
        conds += [Cond(name, "prop", T, group="slow-backend"), Cond(name + "__twin", "twin", 60, group="slow-backend")]
    # two sessions on one server: what B stored (or replaced) is what A gets afterwards
    src += hgen.cond("cross_session", "variant: int, n: int, lat: int", ["0 <= variant <= 3", f"0 <= n <= {3 if q else 5}", f"0 <= lat <= {1 if q else 2}"] + (["n % 3 == 0"] if q else []),
                     "L.cross_session(variant, n, lat)", sig="hb.KEY")
    conds += [Cond("cross_session", "prop", T, group="cross-session"), Cond("cross_session__twin", "twin", 60, group="cross-session")]
    # end to end: the real client's copy loops, get_stream (TYPE, EPSV, REST, command) and finish()
    for kind in ("upload", "append", "download", "download_read"):
        for off in (0, 2):
            for oldlen in ((0, 3) if kind == "download" else ((5,) if kind == "download_read" else (-1, 3))):
                name = f"e2e_{kind}_off{off}_old{oldlen if oldlen >= 0 else 'none'}"
                params = "n: int, bs_srv: int, bs_cli: int, seg: int"
                pre = [f"0 <= n <= {2 if q else 4}", "1 <= bs_srv <= 2 and 1 <= bs_cli <= 2", "0 <= seg <= 1"]
                if kind in ("download", "download_read"):
                    pre.append("n == 0")
                if q:
                    pre.append("bs_srv == 2")
                    pre.append("n != 1")
                src += hgen.cond(name, params, pre, f"L.e2e({kind!r}, n, bs_srv, bs_cli, {off}, {oldlen}, seg)", sig="hb.KEY")
                conds += [Cond(name, "prop", T + 100, group="e2e"), Cond(name + "__twin", "twin", 90, group="e2e")]
    src += "\nfor _v in ('stor', 'appe', 'retr'):\n    L.transfer(_v, 3, 2, 2, 3, 1, 1, 1); L.data_independent(_v, 1, 2, 2)\nfor _k in ('upload', 'append', 'download', 'download_read'):\n    L.e2e(_k, 3, 2, 2, 2, 3, 1)\n"
    S, C = aioftp.Server, aioftp.Client
    return Spec(
        pid="C01", source=src, conds=conds,
        functions_encoded=[U(S.stor), U(S.retr), S.appe, S.rest, S.dispatcher, com.AsyncStreamIterator.__anext__, com.ThrottleStreamIO.read,
                           com.ThrottleStreamIO.write, com.ThrottleStreamIO.iter_by_block, com.StreamIO.read, com.StreamIO.write, pathio.AsyncPathIOContext.__aenter__,
                           U(pathio.MemoryPathIO._open), U(C.get_stream), C.get_passive_connection, aioftp.DataConnectionThrottleStreamIO.finish, C.upload_stream, C.download_stream],
        bounds={
            "server side (real dispatcher, scripted data socket)": f"payload length 0..{nmax}, server block size 1..{bsmax}, restart offset in {offs} (issued by a real REST command), old file absent or of length {olds[1:]}, "
                                                                   f"network segmentation point 0..n, the first {'one' if q else 'two'} short reads of the data socket of symbolic size 1..block; all-distinct byte pattern",
            "slow backend": f"the same three verbs with every backend call suspending for 1..{1 if q else 3} virtual ms (MemoryPathIO semantics, AsyncPathIO timing): payload 0..{2 if q else nmax}, all offsets and old lengths above; "
                            "additionally the 226 must not be written before the stored file's close() has completed",
            "two sessions": f"A downloads a file, B replaces it (DELE + STOR; STOR tmp + DELE + RNFR/RNTO; STOR over it; APPE) with a payload of 0..{3 if q else 5} bytes and gets its completion reply, A downloads it again and asks MLST; backend latency 0..{1 if q else 2}",
            "byte values": f"2 payload / content bytes over {L.SPECIAL} (NUL, LF, CR, IAC, SUB, DEL, ...): Mode A, io.BytesIO realises symbolic bytes",
            "end to end (real Client over SimNet)": f"upload_stream / append_stream / download_stream (drained by iter_by_block, by read() to end of stream, and by read(n) until empty), payload 0..{2 if q else 4}, client and server block sizes 1..2, offset in (0, 2), old file absent / 3 bytes, network delivering whole writes or single bytes",
        },
        outside=["payloads longer than the bound, block sizes above 3 (the copy loops have no other size-dependent branch: stated, not proved)", "TLS, kernel socket buffering", "backends other than MemoryPathIO (C18)", "throttling on (C15)"],
        explanation=(
            "CrossHair/z3 runs STOR/APPE/RETR through the real dispatcher (REST handler, handler + worker with its decorator stack, AsyncStreamIterator, ThrottleStreamIO, AsyncPathIOContext, MemoryPathIO "
            "open/seek/read/write) with symbolic payload length, block size, restart offset, old length, segmentation point and short-read sizes: the stored file equals the POSIX reference "
            "(O_TRUNC / O_APPEND / pwrite at the offset), a download delivers file[off:] in order and the data socket is closed, replies are exactly 150 then 226, no file is left open, and an MLST "
            "after the 226 reports the new size. Byte values that text-mode or telnet-aware code would mangle are covered exhaustively over a class-representative set; the real Client's upload/append/download streams run end to end over the simulated network."
        ),
        assumptions=BASE_ASSUMPTIONS + ["StreamReader.read(n) returns an arbitrary non-empty prefix (contract modelled by the scripted data reader)", "SimNet: ordered, lossless delivery"],
        extra={"stubs": STUBS + ["ScriptReader/CollectWriter as data socket", "SimNet in-memory network (e2e conditions)", "SpyPathIO ledger backend"]},
    )
