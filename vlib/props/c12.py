"""C12 - a session that ends - at any point, for any reason - releases everything it held."""
import aioftp
from aioftp import pathio

from .. import hgen
from ..hbase import STUBS
from ..hlib import c12 as L
from .common import BASE_ASSUMPTIONS, ROOT, Cond, Spec
from ..runner import innermost as U


def build(tier):
    q = tier == "quick"
    src = hgen.preamble("C12", tier, ROOT) + "import vlib.hlib.c12 as L\n"
    conds = []
    T = 300 if q else 1800
    # number of loop iterations each script needs on the current tree (measured natively at build time)
    # (script, backend latency): latency 0 = backend calls never suspend (MemoryPathIO), > 0 = they do (AsyncPathIO timing), so the
    # cut can fall INSIDE a backend call of a worker
    combos = [(1, 0), (5, 1)] if q else [(si, 0) for si in range(len(L.SCRIPTS))] + [(1, 1), (4, 1), (5, 1), (5, 2)]
    iters = {(si, lat): L.run(si, 0, 0, True, measure=True, lat=lat) for si, lat in combos}
    chunk = 12 if q else 20
    for si, lat in combos:
        n = iters[(si, lat)] + 6
        first = 36 if (q and si == 5) else 0  # quick: the login prefix is the same in every script
        for ci, cut in enumerate(L.CUTS):
            for pool in ((True,) if (q or lat or si != 1) else (False, True)):
                lo = first
                while lo <= n:
                    hi = min(lo + chunk - 1, n)
                    name = f"cut_s{si}{'_lat%d' % lat if lat else ''}_{cut}_{'pool' if pool else 'nopool'}_{lo:03d}"
                    src += hgen.cond(name, "k: int", [f"{lo} <= k <= {hi}"], f"L.run({si}, {ci}, k, {pool}, False, {lat})", sig="hb.KEY")
                    conds.append(Cond(name, "prop", T, group=cut))
                    if lo == first:
                        conds.append(Cond(name + "__twin", "twin", 90, group=cut))  # one reachability twin per (script, latency, cut, pool)
                    lo = hi + 1
    src += "\nfor _s in range(len(L.SCRIPTS)):\n    L.run(_s, 0, 33, True); L.run(_s, 1, 40, False)\n"
    S = aioftp.Server
    return Spec(
        pid="C12", source=src, conds=conds,
        functions_encoded=[S.dispatcher, S.close, S.start, S._start_passive_server, S._start_server, U(S.pasv), U(S.epsv), aioftp.server.worker,
                           pathio.AsyncPathIOContext.__aexit__, aioftp.ThrottleStreamIO.__aexit__, aioftp.StreamIO.close],
        bounds={
            "scripts": f"real aioftp.Client sessions over SimNet, (script, backend latency in virtual ms per backend call): {[(L.SCRIPTS[si].__name__, lat) for si, lat in combos]} (listing, upload, download, directory operations, stat + append at an offset + PASV/EPSV, restarted upload + restarted download)",
            "cut": f"at event-loop iteration k after the client started, k symbolic over the whole run of each script (measured on the current tree: {dict(((L.SCRIPTS[si].__name__, lat), n + 6) for (si, lat), n in iters.items())} iterations): "
                   "every client transport vanishes, or Server.close() is called, or only the control connection is reset while a command is still unread (ctrl_reset); with a restricted data-port pool" + ("" if q else "; the upload script also without"),
        },
        outside=["two or more sessions cut at the same instant", "TLS shutdown", "real file descriptors (the ledger is the simulated network's and the spy backend's)", "cut points inside a single callback (atomic in asyncio)"],
        explanation=(
            "The real Server (start, dispatcher incl. its finally block, passive listeners, workers, close) serves the real Client over the simulated network; at a SYMBOLIC loop iteration the peer vanishes, "
            "the server is closed, or the control connection alone is reset. CrossHair/z3 enumerate the cut points and certify that none in the bound is skipped. After the loop has gone quiet: no server-side transport open, no passive listener "
            "left, no backend file open, connection table empty, port pool complete, connection slots returned; Server.close() completes and, AT THE INSTANT IT RETURNS, no task of the server is left running and no server-side transport is open "
            "(ledger taken in the same loop iteration), and nothing appears later."
        ),
        assumptions=BASE_ASSUMPTIONS + ["SimNet: TCP semantics; start_server yields before and after binding and leaks the listener when cancelled after binding (as loop.create_server does)"],
        extra={"stubs": STUBS + ["SimNet in-memory network with a ledger of transports and listeners", "SpyPathIO ledger of open files", "cut injected from VLoop.on_iteration"]},
    )
