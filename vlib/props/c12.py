"""C12 - a session that ends - at any point, for any reason - releases everything it held."""
import aioftp
from aioftp import pathio

from .. import hgen
from ..hbase import STUBS
from ..hlib import c12 as L
from .common import BASE_ASSUMPTIONS, ROOT, Cond, Spec
from ..runner import innermost as U


def build(tier):
    q = tier == "quick"
    src = hgen.preamble("C12", tier, ROOT) + "import vlib.hlib.c12 as L\n"
    conds = []
    T = 300 if q else 1800
    # number of loop iterations each script needs on the current tree (measured natively at build time)
    iters = [L.run(si, 0, 0, True, measure=True) for si in range(len(L.SCRIPTS))]
    chunk = 12 if q else 20
    scripts = [1, 2] if q else list(range(len(L.SCRIPTS)))
    for si in scripts:
        n = iters[si] + 6
        for ci, cut in enumerate(L.CUTS):
            for pool in ((True,) if q else (False, True)):
                lo = 0
                while lo <= n:
                    hi = min(lo + chunk - 1, n)
                    if q and si == 4 and (hi < 30 or cut == "vanish"):
                        lo = hi + 1
                        continue  # quick: the login prefix is the same in every script; list only with vanish, mixed only with close
                    name = f"cut_s{si}_{cut}_{'pool' if pool else 'nopool'}_{lo:03d}"
                    src += hgen.cond(name, "k: int", [f"{lo} <= k <= {hi}"], f"L.run({si}, {ci}, k, {pool})", sig="hb.KEY")
                    conds.append(Cond(name, "prop", T, group=cut))
                    if lo == 0 or (q and si == 4 and lo <= 36):
                        conds.append(Cond(name + "__twin", "twin", 90, group=cut))  # one reachability twin per (script, cut, pool)
                    lo = hi + 1
    src += "\nfor _s in range(len(L.SCRIPTS)):\n    L.run(_s, 0, 33, True); L.run(_s, 1, 40, False)\n"
    S = aioftp.Server
    return Spec(
        pid="C12", source=src, conds=conds,
        functions_encoded=[S.dispatcher, S.close, S.start, S._start_passive_server, S._start_server, U(S.pasv), U(S.epsv), aioftp.server.worker,
                           pathio.AsyncPathIOContext.__aexit__, aioftp.ThrottleStreamIO.__aexit__, aioftp.StreamIO.close],
        bounds={
            "scripts": f"real aioftp.Client sessions over SimNet: {[f.__name__ for i, f in enumerate(L.SCRIPTS) if i in scripts]} (listing, upload, download, directory operations, stat + append at an offset + PASV/EPSV)",
            "cut": f"at event-loop iteration k after the client started, k symbolic over the whole run of each script (measured on the current tree: {dict((L.SCRIPTS[i].__name__, iters[i] + 6) for i in scripts)} iterations): "
                   "every client transport vanishes, or Server.close() is called, or only the control connection is reset while a command is still unread (ctrl_reset); with and without a restricted data-port pool" + (" (quick: with pool)" if q else ""),
        },
        outside=["two or more sessions cut at the same instant", "TLS shutdown", "real file descriptors (the ledger is the simulated network's and the spy backend's)", "cut points inside a single callback (atomic in asyncio)"],
        explanation=(
            "The real Server (start, dispatcher incl. its finally block, passive listeners, workers, close) serves the real Client over the simulated network; at a SYMBOLIC loop iteration the peer vanishes, "
            "the server is closed, or the control connection alone is reset. CrossHair/z3 enumerate the cut points and certify that none in the bound is skipped. After the loop has gone quiet: no server-side transport open, no passive listener "
            "left, no backend file open, connection table empty, port pool complete, connection slots returned; Server.close() completes and, AT THE INSTANT IT RETURNS, no task of the server is left running and no server-side transport is open "
            "(ledger taken in the same loop iteration), and nothing appears later."
        ),
        assumptions=BASE_ASSUMPTIONS + ["SimNet: TCP semantics; start_server yields before and after binding and leaks the listener when cancelled after binding (as loop.create_server does)"],
        extra={"stubs": STUBS + ["SimNet in-memory network with a ledger of transports and listeners", "SpyPathIO ledger of open files", "cut injected from VLoop.on_iteration"]},
    )
