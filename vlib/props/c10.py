"""C10 - connection limits are exact and slots are always returned."""
import aioftp

from .. import hgen
from ..hbase import STUBS
from ..hlib import c10 as L
from .common import BASE_ASSUMPTIONS, ROOT, Cond, Spec
from ..runner import innermost as U


def build(tier):
    q = tier == "quick"
    src = hgen.preamble("C10", tier, ROOT) + "import vlib.hlib.c10 as L\n"
    conds = []
    T = 200 if q else 1500
    K = 60
    params = "k: int, lim_s: bool, m: int, v: int, lim1: bool, m1: int, v1: int, lim2: bool, m2: int, v2: int"
    inv = ["0 <= v <= m <= 1000 and 0 <= v1 <= m1 <= 1000 and 0 <= v2 <= m2 <= 1000", "m >= 1 and m1 >= 1 and m2 >= 1"]
    for si in range(len(L.SCRIPTS)):
        for ei, ex in enumerate(L.EXITS):
            if q and ex in ("idle", "raise") and si not in (2, 4):
                continue
            name = f"session_s{si}_{ex}"
            pre = inv + ([f"1 <= k <= {K}"] if ex == "cancel" else ["k == 0"])
            if q and ex == "cancel":
                pre.append("lim_s and lim1 and lim2")
            src += hgen.cond(name, params, pre, f"L.session({si}, {ei}, k, lim_s, m, v, lim1, m1, v1, lim2, m2, v2)", sig="hb.KEY")
            conds += [Cond(name, "prop", T, group=ex), Cond(name + "__twin", "twin", 60, group=ex)]
    src += hgen.cond("two_sessions", "hold_first: int", ["30 <= hold_first <= 1000"], "L.two_sessions(1, hold_first)")
    conds += [Cond("two_sessions", "prop", T, group="two"), Cond("two_sessions__twin", "twin", 60, group="two")]
    src += "\nfor _s in range(len(L.SCRIPTS)):\n    for _e in range(5):\n        L.session(_s, _e, 7, True, 2, 1, True, 1, 1, False, 1, 1)\nL.two_sessions(1, 50)\n"
    S = aioftp.Server
    return Spec(
        pid="C10", source=src, conds=conds,
        functions_encoded=[aioftp.AvailableConnections.acquire, aioftp.AvailableConnections.release, aioftp.AvailableConnections.locked, S.greeting, S.user, U(S.pass_),
                           aioftp.MemoryUserManager.get_user, aioftp.MemoryUserManager.notify_logout, S.dispatcher],
        bounds={
            "counters": "server-wide limit on/off, maximum m and remaining v with 0 <= v <= m <= 1000; the same per user u1 and u2 - all symbolic integers: the holdings of any number of other sessions are represented by v, v1, v2 (inductive in the other sessions)",
            "session script": f"one of {L.SCRIPTS}",
            "exit cause": f"{L.EXITS}: QUIT, abrupt EOF, dispatcher task cancelled (what Server.close does) at loop iteration k in 1..{K} (symbolic: any moment of the session), idle timeout, a handler raising",
            "two sessions": "two concurrent real sessions against limit 1 (hold time of the first symbolic 30..1000 virtual ms)",
        },
        outside=["custom user managers (notify_logout that suspends or fails)", "more than two user accounts", "more than two concurrent real sessions (other sessions enter through the symbolic counters)"],
        explanation=(
            "The real Server.dispatcher (greeting, user, pass_, finally block) with the real MemoryUserManager/AvailableConnections is executed by CrossHair with SYMBOLIC counter values: "
            "before every command the counters equal start minus what this session holds (server slot; the slot of exactly the user it is attached to), USER at a user's limit is answered "
            "530 and not counted, a session refused with 421 counts nothing, and when the session ends - QUIT, EOF, cancellation at a symbolic loop iteration, idle timeout, handler "
            "exception - every counter is back at its start value and no accounting exception was logged."
        ),
        assumptions=BASE_ASSUMPTIONS + ["invariant assumed for the other sessions: 0 <= remaining <= maximum for every counter"],
        extra={"stubs": STUBS + ["scripted control channel (HookReader / CollectWriter)", "cancellation injected from VLoop.on_iteration"]},
    )
