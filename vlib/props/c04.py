"""C04 - read/write permissions follow the nearest-ancestor rule on the resolved path."""
import aioftp

from .. import hgen
from ..hbase import STUBS
from ..hlib import c04 as L
from .common import BASE_ASSUMPTIONS, ROOT, Cond, Spec


def build(tier):
    q = tier == "quick"
    src = hgen.preamble("C04", tier, ROOT) + "import vlib.hlib.c04 as L\n"
    conds = []
    T = 200 if q else 1500
    n = 3 if q else 4
    nt = 4 if q else 6
    # (1) get_permissions on symbolic paths, partitioned by the shape of the first entry
    firsts = ["/", "/a", "/a/b", "/b"] if q else ["/", "/a", "/a/b", "/b", "/a/a", "/a/b/a", "/b/b"]
    for k, p1 in enumerate(firsts):
        for wr in (False, True):
            name = f"perm_{k}_{'root' if wr else 'noroot'}"
            # the three entries carry pairwise distinct (readable, writable) patterns, all different from the default (True, True):
            # the pattern returned identifies the entry chosen, no symbolic bits (and their forks) needed
            params = "p2: str, target: str"
            pre = [f"len(p2) <= {n} and L.wellformed(p2)", f"len(target) <= {nt} and L.wellformed(target)"]
            src += hgen.cond(name, params, pre, f"L.get_permissions({p1!r}, True, False, p2, False, True, {wr}, False, False, target)")
            conds += [Cond(name, "prop", T, group="get_permissions"), Cond(name + "__twin", "twin", 40, group="get_permissions")]
    # (2) handlers
    na = 8 if q else len(L.ARGS)
    for v in L.READ + L.WRITE:
        name = f"handler_{v}"
        params = "ai: int, cwd_i: int, r0: bool, w0: bool, r1: bool, w1: bool, r2: bool, w2: bool"
        pre = [f"0 <= ai < {na if v != 'cdup' else 1}", f"0 <= cwd_i < {2 if q else 3}"]
        src += hgen.cond(name, params, pre, f"L.handler({v!r}, ai, cwd_i, r0, w0, r1, w1, r2, w2)", sig="hb.KEY")
        conds += [Cond(name, "prop", T, group=v), Cond(name + "__twin", "twin", 60, group=v)]
    src += "\nL.get_permissions('/a', True, False, '/a/b', False, True, True, True, True, '/a/b/a')\nfor _v in L.READ + L.WRITE:\n    L.handler(_v, 1, 1, True, False, False, True, True, True)\n"
    S = aioftp.Server
    return Spec(
        pid="C04", source=src, conds=conds,
        functions_encoded=[aioftp.Permission.is_parent, aioftp.User.get_permissions, aioftp.PathPermissions.__call__, aioftp.PathConditions.__call__, S.get_paths, S.dispatcher],
        bounds={
            "get_permissions": f"table = optional root entry + one entry from {firsts} + one entry with a symbolic path (any normalised absolute path over {{a,b}}, length <= {n}); "
                               f"the entries carry pairwise distinct (readable, writable) patterns so that the result identifies the entry chosen; target = any normalised absolute path over {{a,b}} of length <= {nt} (symbolic string)",
            "handlers": f"verbs {L.READ + L.WRITE}; permission table '/', '/a', '/a/d' with six symbolic bits; argument from the first {na} of {L.ARGS} (aliases with '..', '//' and '.'), cwd in ['/', '/a', '/a/d'][:{2 if q else 3}]; tree {L.TREE}",
        },
        outside=["permission paths outside the {a,b} alphabet / deeper than the bound", "more than three table entries", "custom user classes overriding get_permissions"],
        explanation=(
            "CrossHair/z3 executes the real Permission.is_parent / User.get_permissions on symbolic permission paths, bits and target and compares with an independent "
            "longest-prefix function (first listed wins among duplicates, default allow). Each of the 13 permission-checked handlers is then run through the real dispatcher "
            "with six symbolic permission bits: when the entry governing the reference-resolved target lacks the needed bit the reply is exactly 550, the tree and cwd are "
            "unchanged and the spying backend saw no mutating call; otherwise the request is not refused for permission. Aliases of one location are inside the argument universe."
        ),
        assumptions=BASE_ASSUMPTIONS,
        extra={"stubs": STUBS + ["SpyPathIO ledger backend, Listeners stub, scripted control/data channels"]},
    )
