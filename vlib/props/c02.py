"""C02 - every client-supplied path stays inside the user's base directory."""
import aioftp

from .. import hgen
from ..hbase import STUBS
from ..hlib import c02 as L
from .common import BASE_ASSUMPTIONS, ROOT, Cond, Spec
from ..runner import innermost as U


def build(tier):
    q = tier == "quick"
    src = hgen.preamble("C02", tier, ROOT) + "import vlib.hlib.c02 as L\n"
    conds = []
    T = 200 if q else 1500
    # (1) character level, Mode S restricted to the path alphabet; partitioned by the first character
    alph = "/.a" if q else "/.a\\"
    n = 4 if q else 5
    src += f"def _inalph(s):\n    return all(ch in {alph!r} for ch in s)\n"
    for k, ch in enumerate(alph):
        for bi in ((0, 1) if q else (0, 1, 2, 3)):
            name = f"chars_{k}_b{bi}"
            pre = [f"1 <= len(path) <= {n} and path[0] == {ch!r} and _inalph(path)", f"0 <= cwd_i < {2 if q else 4}"]
            src += hgen.cond(name, "path: str, cwd_i: int", pre, f"L.check(path, L.CWDS[cwd_i], {bi})", sig="hb.KEY")
            conds += [Cond(name, "prop", T, group="chars"), Cond(name + "__twin", "twin", 40, group="chars")]
    # the storage flavour's own separator inside a name (windows base path): '..' hidden behind a backslash (Mode A: pathlib's
    # windows flavour realises a symbolic string character by character)
    src += hgen.cond("chars_backslash_b3", "n: int, i0: int, i1: int, i2: int, i3: int, cwd_i: int",
                     ["1 <= n <= 4", "0 <= i0 <= 2 and 0 <= i1 <= 2 and 0 <= i2 <= 2 and 0 <= i3 <= 2", "n >= 2 or i1 == 0", "n >= 3 or i2 == 0", "n >= 4 or i3 == 0", "0 <= cwd_i <= 1"],
                     "L.check_backslash(n, i0, i1, i2, i3, cwd_i, 3)", sig="hb.KEY")
    conds += [Cond("chars_backslash_b3", "prop", T, group="chars"), Cond("chars_backslash_b3__twin", "twin", 40, group="chars")]
    # known finding (windows flavour only): a backslash inside a name splits the REAL path while the virtual path keeps one segment
    src += hgen.cond("one_to_one_b3", "n: int, i0: int, i1: int, i2: int, cwd_i: int", ["1 <= n <= 3", "0 <= i0 <= 1 and 0 <= i1 <= 1 and 0 <= i2 <= 1", "n >= 2 or i1 == 0", "n >= 3 or i2 == 0", "0 <= cwd_i <= 1"],
                     "L.check_one_to_one(n, i0, i1, i2, cwd_i, 3)", sig="hb.KEY")
    conds += [Cond("one_to_one_b3", "prop", T, group="one_to_one"), Cond("one_to_one_b3__twin", "twin", 40, group="one_to_one")]
    src += hgen.cond("one_to_one_b0", "n: int, i0: int, i1: int, i2: int, cwd_i: int", ["1 <= n <= 3", "0 <= i0 <= 1 and 0 <= i1 <= 1 and 0 <= i2 <= 1", "n >= 2 or i1 == 0", "n >= 3 or i2 == 0", "0 <= cwd_i <= 1"],
                     "L.check_one_to_one(n, i0, i1, i2, cwd_i, 0)", sig="hb.KEY")
    conds += [Cond("one_to_one_b0", "prop", T, group="one_to_one_posix"), Cond("one_to_one_b0__twin", "twin", 40, group="one_to_one_posix")]
    src += hgen.cond("chars_empty", "cwd_i: int, bi: int", ["0 <= cwd_i < 4 and 0 <= bi < 5"], "L.check('', L.CWDS[cwd_i], bi)", sig="hb.KEY")
    conds += [Cond("chars_empty", "prop", T, group="chars"), Cond("chars_empty__twin", "twin", 40, group="chars")]
    # (2) segment level (Mode A), partitioned by base flavour and first segment
    ns = 7 if q else len(L.SEGS)
    nseg = 3  # (4 segments x 12 segment shapes would be 27 648 paths per condition)
    for bi in range(len(L.BASES)):
        for s0 in range(ns if not q else 3):
            name = f"segs_b{bi}_s{s0}"
            params = "cwd_i: int, lead_i: int, n: int, s1: int, s2: int, s3: int"
            pre = [f"0 <= cwd_i < {2 if q else 4} and 0 <= lead_i < {3 if q else 4}", f"1 <= n <= {nseg}", f"0 <= s1 < {ns} and 0 <= s2 < {ns} and 0 <= s3 < {ns}",
                   "n >= 2 or s1 == 0", "n >= 3 or s2 == 0", "n >= 4 or s3 == 0"]
            if q:
                # quick: the first segment ranges over {.., a, ''} only; the others over the first 7 entries
                pass
            src += hgen.cond(name, params, pre, f"L.seg_check({bi}, cwd_i, lead_i, n, {s0}, s1, s2, s3)", sig="hb.KEY")
            conds += [Cond(name, "prop", T, group="segments"), Cond(name + "__twin", "twin", 40, group="segments")]
    # (3) handlers through the real dispatcher with the spying backend
    na = 8 if q else len(L.ALIASES)
    for v in L.PATH_VERBS:
        name = f"handler_{v}"
        src += hgen.cond(name, "ai: int, cwd_i: int, data: bool", [f"0 <= ai < {na}", f"0 <= cwd_i < {2 if q else 3}"] + (["data"] if q else []), f"L.handler({v!r}, ai, cwd_i, data)", sig="hb.KEY")
        conds += [Cond(name, "prop", T, group=v), Cond(name + "__twin", "twin", 60, group=v)]
    src += "\nL.check('a/../..', '/a', 0); L.check('C:/x', '/', 3); L.seg_check(3, 1, 1, 3, 5, 0, 1, 0)\nfor _v in L.PATH_VERBS:\n    L.handler(_v, 4, 1, True)\n"
    S = aioftp.Server
    return Spec(
        pid="C02", source=src, conds=conds,
        functions_encoded=[S.get_paths, aioftp.PathConditions.__call__, aioftp.PathPermissions.__call__, S.dispatcher, U(S.cwd), U(S.pwd)],
        bounds={
            "character level": f"path = any string of length 1..{n} over the alphabet {list(alph)} (symbolic string, partitioned by first character), cwd in {L.CWDS[:2 if q else 4]}, base flavours {[L.BASES[b] for b in ((0, 1) if q else (0, 1, 2, 3))]}",
            "segment level": f"optional lead in {L.LEADS[:3 if q else 4]} + 1..{nseg} segments from {L.SEGS[:ns]}; cwd as above; base flavours {L.BASES}",
            "handlers": f"each of {L.PATH_VERBS} with the first {na} of the alias arguments {L.ALIASES}, cwd in ['/', '/a', '/a/d'], tree {L.TREE} (the user's base is /srv; /outside must stay untouched)",
        },
        outside=["paths longer than the bounds", "symbolic links (the property is lexical)", "Windows drive semantics beyond the C:\\ftp flavour of the repository's own test"],
        explanation=(
            "CrossHair/z3 executes the real Server.get_paths on symbolic path strings (character level) and on segment products (class representatives incl. '..', '.', '', "
            "backslash, drive and UNC shaped segments, '//' leads) for five base-path flavours: the result is compared with an independent stack-machine resolution on "
            "str.split('/'); real == base / normalised, is_relative_to(base), absolute, no '..'. Every path handler is then run through the real dispatcher on a spying "
            "backend: every path handed to the storage backend lies inside base_path, a sibling tree outside the base stays untouched, and PWD reports the reference-normalised directory."
        ),
        assumptions=BASE_ASSUMPTIONS + ["pathlib.PurePosixPath/PureWindowsPath parsing as executed by CrossHair (pure Python in 3.12 after the intern stub)"],
        extra={"stubs": STUBS + ["SpyPathIO: records every path argument", "Listeners stub, scripted control/data channels"]},
    )
