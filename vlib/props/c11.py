"""C11 - the passive data-port pool neither loses nor duplicates ports."""
import aioftp

from .. import hgen
from ..hbase import STUBS
from ..hlib import c11 as L
from .common import BASE_ASSUMPTIONS, ROOT, Cond, Spec
from ..runner import innermost as U


def build(tier):
    q = tier == "quick"
    src = hgen.preamble("C11", tier, ROOT) + "import vlib.hlib.c11 as L\n"
    conds = []
    T = 250 if q else 1500
    K = 45 if q else 70
    params = "k: int, n: int, h0: bool, h1: bool, h2: bool, pr0: int, pr1: int, pr2: int, o0: int, o1: int, o2: int, o3: int, e: int"
    base = ["0 <= pr0 <= 2 and 0 <= pr1 <= 2 and 0 <= pr2 <= 2", "0 <= o0 <= 2 and 0 <= o1 <= 2 and 0 <= o2 <= 2 and 0 <= o3 <= 2", "1 <= e <= 200"]
    nmax = 2 if q else 3
    for si in range(len(L.SCRIPTS)):
        for ei, ex in enumerate(L.EXITS):
            if q and si in (3, 4, 5, 7) and ex != "eof":
                continue
            for n in range(0, nmax + 1):
                if q and n == 0 and ex == "cancel":
                    continue
                name = f"pool_s{si}_{ex}_n{n}"
                pre = base + [f"n == {n}"] + ([f"1 <= k <= {K}"] if ex == "cancel" else ["k == 0"])
                pre += [f"not h{j} and pr{j} == 0" for j in range(n, 3)]
                pre += [f"o{j} == 0" for j in range(min(n + 1, 4), 4)]
                if ex == "cancel":
                    # cancellation sweep: one failure pattern dimension less (the first attempt's outcome stays symbolic)
                    pre += ["o2 == 0 and o3 == 0", "pr0 == 0 and pr1 == 0 and pr2 == 0"] + (["not h0 and not h1 and not h2"] if q else [])
                elif q:
                    pre += ["pr2 == 0"]
                src += hgen.cond(name, params, pre, f"L.session({si}, {ei}, k, n, h0, h1, h2, pr0, pr1, pr2, o0, o1, o2, o3, e)", sig="hb.KEY")
                conds += [Cond(name, "prop", T, group=ex), Cond(name + "__twin", "twin", 60, group=ex)]
    src += "\nfor _s in range(len(L.SCRIPTS)):\n    for _e in range(3):\n        L.session(_s, _e, 25, 2, False, True, False, 0, 1, 0, 1, 0, 0, 0, 5)\n"
    S = aioftp.Server
    return Spec(
        pid="C11", source=src, conds=conds,
        functions_encoded=[S._start_passive_server, U(S.pasv), U(S.epsv), S.dispatcher, aioftp.errors.NoAvailablePort],
        bounds={
            "pool": f"0..{nmax} configured ports; each either held by another live session or in the pool with retry priority 0..2 (symbolic)",
            "listener start": "outcome of each of up to 4 attempts symbolic: success, OSError(EADDRINUSE), OSError(e) with e a symbolic errno in 1..200; the stub yields once before and once after 'binding' as loop.create_server does",
            "session": f"scripts {L.SCRIPTS}; exit by QUIT, abrupt EOF, or cancellation of the session task at loop iteration k in 1..{K} (symbolic: any moment, including while the listener is being opened)",
        },
        outside=["more than 3 configured ports / 4 start attempts", "real sockets", "several sessions cut at the same instant (other sessions enter through the 'held' bits)"],
        explanation=(
            "The real PASV/EPSV handlers, _start_passive_server and the dispatcher's finally block run under CrossHair against a listener stub whose per-attempt outcome and errno are symbolic, from a symbolic "
            "pool (ports held elsewhere, retry priorities). Asserted: between commands multiset(pool) + this session's live listener port == configured ports not held elsewhere; after the session "
            "has ended in any way - including cancellation at a symbolic loop iteration - the pool is exactly that set again, each port once, and no listener is left; exhaustion is answered 421."
        ),
        assumptions=BASE_ASSUMPTIONS + ["asyncio.start_server yields before binding and after (as loop.create_server does); a cancelled start releases whatever it had bound (asyncio's own clean-up)"],
        extra={"stubs": STUBS + ["Listeners stub for asyncio.start_server with symbolic per-attempt outcome", "cancellation injected from VLoop.on_iteration"]},
    )
