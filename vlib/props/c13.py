"""C13 - backend failures are contained: 451, data channel closed, session lives on."""
import aioftp
from aioftp import pathio

from .. import hgen
from ..hbase import STUBS
from ..hlib import c13 as L
from .common import BASE_ASSUMPTIONS, ROOT, Cond, Spec
from ..runner import innermost as U


def build(tier):
    q = tier == "quick"
    src = hgen.preamble("C13", tier, ROOT) + "import vlib.hlib.c13 as L\n"
    conds = []
    T = 200 if q else 900
    K = 12 if q else 20
    for case in L.CASES:
        name = f"fault_{case}"
        NK = len(L.hb.SpyPathIO.FAIL_KINDS)
        # quick: the kind of exception is tied to the fault index (every kind is met at several indices); thorough: the (index, kind) plane
        pre = [f"1 <= k <= {K}", f"0 <= ek < {NK}"] + (["not repeat", f"ek == k % {NK}"] if q else ["ek == 0 or not repeat"])
        src += hgen.cond(name, "k: int, repeat: bool, with_data: bool, ek: int", pre, f"L.step({case!r}, k, repeat, with_data, ek)", sig="hb.KEY")
        conds += [Cond(name, "prop", T, group=case), Cond(name + "__twin", "twin", 60, group=case)]
    for kind in ("download", "upload"):
        name = f"e2e_{kind}"
        src += hgen.cond(name, "k: int", [f"1 <= k <= {10 if q else 12}"], f"L.e2e({kind!r}, k)", sig="hb.KEY")
        conds += [Cond(name, "prop", T + 150, group="e2e"), Cond(name + "__twin", "twin", 90, group="e2e")]
    src += "\nfor _c in L.CASES:\n    L.step(_c, 3, False, True)\nL.e2e('download', 4); L.e2e('upload', 12)\n"
    S = aioftp.Server
    return Spec(
        pid="C13", source=src, conds=conds,
        functions_encoded=[pathio.universal_exception, S.dispatcher, aioftp.PathConditions.__call__, S.build_mlsx_string, S.build_list_string, U(S.stor),
                           U(S.retr), U(S.list), U(S.mlsd), pathio.AsyncPathIOContext.__aexit__],
        bounds={
            "commands": f"{list(L.CASES)} (stor_rest / retr_rest: preceded by a real REST 2), with and without a data connection present",
            "fault": f"the k-th storage-backend call made by the command (exists, is_dir, is_file, stat, open, seek, read, write, close, list iteration, mkdir, rmdir, unlink, rename) raises, k symbolic in 1..{K}; what it raises: OSError(EIO), TimeoutError (= OSError(ETIMEDOUT) = asyncio.TimeoutError), ValueError, FileNotFoundError, RuntimeError" + (" (quick: kind = k mod 5)" if q else " (every pair)")
                     + ("" if q else "; optionally every later call fails as well"),
            "end to end": "real Client over SimNet, download and upload with the k-th backend call failing, a second session open in parallel",
        },
        outside=["backends whose failures are not exceptions (hangs: path_timeout, C16)", "faults in more than one non-adjacent call", "custom path_io implementations bypassing universal_exception"],
        explanation=(
            "The real dispatcher runs each storage-touching command on the spying MemoryPathIO whose k-th call (k symbolic) raises OSError through the real universal_exception wrapper. "
            "CrossHair/z3 covers every fault position: the command is answered with exactly one final reply 451 (after 150 for transfers), never a success reply; a data connection taken "
            "from the session is closed so that the peer sees end-of-file; no backend file stays open; the following PWD and MLST succeed. End to end the real client gets 451 instead of hanging, "
            "no server-side transport is left over, the same session transfers again and a parallel session lists normally."
        ),
        assumptions=BASE_ASSUMPTIONS,
        extra={"stubs": STUBS + ["SpyPathIO: the real MemoryPathIO raising OSError at the k-th call", "scripted control/data channels; SimNet for the e2e conditions"]},
    )
