"""C18 - the shipped storage backends are interchangeable."""
import aioftp
from aioftp import pathio

from .. import hgen
from ..hbase import STUBS
from ..hlib import c18 as L
from .common import BASE_ASSUMPTIONS, ROOT, Cond, Spec
from ..runner import innermost as U


def model_validation(tier):
    def run():
        n, bad = L.validate_against_real_fs()
        if bad:
            return {"error": f"ModelFS disagrees with the real filesystem on {len(bad)} one-step cases, e.g. {bad[:2]} - the reference model is wrong, nothing is claimed", "evaluations": n}
        return {"evaluations": n, "sigs": [f"validated:{op}" for op in L.OPS], "discharged": 0,
                "samples": [{"model_validation": f"{n} (tree, operation, argument) cases: real PathIO on a temporary directory == real PathIO on ModelPath objects, outcome and resulting tree"}],
                "summary": f"ModelFS == real filesystem on all {n} one-step cases (native, temporary directory removed afterwards)"}
    return run


def build(tier):
    q = tier == "quick"
    src = hgen.preamble("C18", tier, ROOT) + "import vlib.hlib.c18 as L\n"
    conds = []
    T = 300 if q else 1800
    tp = "a: int, af: int, ad: int, adg: int, f: int"
    tpre = ["0 <= a <= 2 and 0 <= af <= 2 and 0 <= ad <= 2 and 0 <= adg <= 2 and 0 <= f <= 2", "L.tree_of(a, af, ad, adg, f) is not None"]
    if q:
        tpre.append("f == 1")
    na = len(L.ARGS)
    for oi, op in enumerate(L.OPS):
        name = f"api_{op.replace('+', 'p')}"
        pre = tpre + [f"0 <= a1 < {na}"] + ([f"0 <= a2 < {na}"] + (["a2 in (0, 5, 6, 7, 8)"] if q else []) if op == "rename" else ["a2 == 0"])
        if q and op == "rename":
            pre.append("adg < 2")
        src += hgen.cond(name, tp + ", a1: int, a2: int", pre, f"L.api_pair(a, af, ad, adg, f, {oi}, a1, a2)", sig="hb.KEY")
        conds += [Cond(name, "prop", T, group="api"), Cond(name + "__twin", "twin", 60, group="api")]
    quick_verbs = ("CWD", "MKD", "RMD", "DELE", "RNFR+RNTO", "MLSD", "RETR", "REST+RETR", "STOR", "APPE", "REST+STOR", "REST+APPE")
    for vi, verb in enumerate(L.VERBS):
        if q and verb not in quick_verbs:
            continue
        parts = [None] if verb != "RNFR+RNTO" else ([0, 7, 8] if q else [0, 5, 6, 7, 8])
        for a2 in parts:
            name = f"server_{verb.lower().replace('+', '_').replace('-', '_')}" + ("" if a2 is None else f"_to{a2}")
            pre = tpre + [f"0 <= a1 < {na}"] + (["adg < 2", "a == 2", "af < 2", "ad != 1", "a1 != 3 and a1 != 5"] if q else [])
            src += hgen.cond(name, tp + ", a1: int", pre, f"L.server_triple(a, af, ad, adg, f, {vi}, a1, {a2 or 0})", sig="hb.KEY")
            conds += [Cond(name, "prop", T, group="server"), Cond(name + "__twin", "twin", 90, group="server")]
    ns = len(L.SEQ_OPS)
    for i0 in (range(ns) if not q else (1, 4)):
        name = f"server_seq_{i0}"
        # about 10 CPU-s per path (three backends x a 7-command session): the quick tier keeps 8 histories per first operation
        src += hgen.cond(name, "i1: int, i2: int", [f"0 <= i1 < {ns} and 0 <= i2 < {ns}"] + (["i2 in (2, 3)", "i1 in (0, 1, 4, 5)"] if q else []), f"L.server_seq({i0}, i1, i2)", sig="hb.KEY")
        conds += [Cond(name, "prop", T, group="server-seq"), Cond(name + "__twin", "twin", 90, group="server-seq")]
    src += "\nL.server_seq(1, 2, 3)\nL.api_pair(2, 1, 2, 1, 1, 17, 0, 7); L.api_pair(2, 1, 2, 1, 1, 13, 1, 0); L.server_triple(2, 1, 2, 1, 1, 10, 7, 0); L.server_triple(2, 1, 2, 0, 1, 4, 1, 8)\n"
    return Spec(
        pid="C18", source=src, conds=conds,
        functions_encoded=[pathio.PathIO, pathio.AsyncPathIO, pathio.MemoryPathIO, pathio.universal_exception, pathio.defend_file_methods, pathio._blocking_io, pathio.AsyncPathIOContext,
                           U(aioftp.Server.stor), U(aioftp.Server.rnto), aioftp.Server.dispatcher],
        bounds={
            "tree": "universe /a, /a/f, /a/d, /a/d/g, /f each absent / file / directory (consistent with its parents; 51 trees), two file contents" + (" (quick: /f is a file; behind the server /a is a directory, /a/f absent or a file, /a/d absent or a directory, /a/d/g absent or a file: 6 trees)" if q else ""),
            "backend API (PathIO vs AsyncPathIO over ModelPath)": f"one operation of {L.OPS} with arguments from {L.ARGS} (rename: both arguments)",
            "behind the server (MemoryPathIO vs PathIO vs AsyncPathIO)": f"one client-visible operation of {[v for v in L.VERBS if (not q or v in quick_verbs)]} (REST at 3 and beyond the end, 3-byte upload) with arguments from the same universe",
            "histories behind the server": f"3 operations on one file from {L.SEQ_OPS} (restart upload into the middle, append, partial download ... each transfer on a fresh data connection)" + (" (quick: first in {REST 3+STOR, REST 3+RETR}, second in {STOR, REST 3+STOR, REST 3+RETR, REST 12+STOR}, third in {APPE, RETR})" if q else ""),
            "reference model": "ModelFS/ModelPath validated against the real filesystem through the real PathIO on every (tree, operation, argument) of the one-step universe at the start of every run",
        },
        outside=["the real filesystem on sequences longer than one step (a statement about the kernel, reached only through system calls: not encodable)", "thread interleavings of AsyncPathIO's executor (the stubbed executor runs the function at the next loop iteration)",
                 "mutations aimed at the virtual root itself (excluded by the property)", "permissions, symbolic links, special files, disk-full conditions", "histories longer than 3 operations behind the server"],
        explanation=(
            "At the backend API, the real PathIO and AsyncPathIO (their wrapper stacks: universal_exception, with_timeout, _blocking_io, defend_file_methods, the listers, AsyncPathIOContext) run over ModelPath objects "
            "- a POSIX reference model with pathlib's surface, validated exhaustively against the real filesystem each run - and must give the same outcome and the same tree for every operation from every tree of the universe "
            "(CrossHair/z3, tree and arguments symbolic). Behind the server, the same client-visible operation is executed through the real dispatcher on MemoryPathIO, PathIO and AsyncPathIO: same reply codes, same transferred "
            "bytes / listing entries, same resulting tree, and a failing command changes nothing."
        ),
        assumptions=BASE_ASSUMPTIONS + ["ModelFS is the filesystem (validated one step deep against the real one each run)", "loop.run_in_executor runs the function once, later, and returns its result"],
        native=[("modelfs_vs_real_filesystem", model_validation(tier))],
        extra={"stubs": STUBS + ["ModelPath: duck-typed pathlib.Path over the in-memory POSIX model", "VLoop.run_in_executor: runs the function at the next loop iteration"]},
    )
