"""C20 - passwords never reach the logs (non-interference over two symbolic passwords of equal length)."""
import aioftp
from aioftp import client as cli
from aioftp import server as srv

from .. import hgen
from ..hbase import STUBS
from .common import BASE_ASSUMPTIONS, ROOT, Cond, Spec
from ..runner import innermost as U

BODY = r'''
class Line:
    """bytes stand-in whose decode() yields a symbolic str (the utf-8 codec itself is CPython's, not aioftp's)."""
    def __init__(self, s): self.s = s
    def decode(self, encoding=None, errors=None): return self.s
    def __len__(self): return len(self.s) + 2
    def __bool__(self): return True

class LineStream:
    def __init__(self, lines): self.lines = list(lines); self.written = []
    async def readline(self):
        return self.lines.pop(0) if self.lines else b""
    async def write(self, data): self.written.append(data)
    def close(self): pass

def _drive(coro):
    """run a coroutine that never really suspends"""
    try:
        coro.send(None)
    except StopIteration as e:
        return e.value
    coro.close()
    raise RuntimeError("coroutine suspended")

def _verb(b0, b1, b2, b3):
    return ("P" if b0 else "p") + ("A" if b1 else "a") + ("S" if b2 else "s") + ("S" if b3 else "s")

def _clean(pw):
    # what the line protocol can carry as an argument: no CR/LF, no trailing whitespace
    return "\r" not in pw and "\n" not in pw and pw == pw.rstrip()

def _records():
    return [(lv, fmt, args) for lv, fmt, args in hb.SERVER_LOG.records + hb.CLIENT_LOG.records]

# -- (a) Server.parse_command ------------------------------------------------------------------------------------
def _srv_parse(b0, b1, b2, b3, pw):
    hb.reset_logs()
    server = aioftp.Server([aioftp.User()], path_io_factory=aioftp.MemoryPathIO)
    stream = LineStream([Line(_verb(b0, b1, b2, b3) + " " + pw + "\r\n")])
    cmd, rest = _drive(server.parse_command(stream))
    return cmd, rest, _records()

def _srv_parse_ni(b0, b1, b2, b3, pw1):
    pw2 = "z" * len(pw1)
    cmd1, rest1, rec1 = _srv_parse(b0, b1, b2, b3, pw1)
    cmd2, rest2, rec2 = _srv_parse(b0, b1, b2, b3, pw2)
    ok = cmd1 == "pass" and rest1 == pw1 and rest2 == pw2   # the handler still gets the real password
    return ok and rec1 == rec2 and len(rec1) >= 1

def _srv_parse_bytes(pw):
    """same through the real utf-8 codec, single run: the record must be exactly the censored form"""
    hb.reset_logs()
    server = aioftp.Server([aioftp.User()], path_io_factory=aioftp.MemoryPathIO)
    stream = LineStream([("PASS " + pw + "\r\n").encode("utf-8")])
    cmd, rest = _drive(server.parse_command(stream))
    recs = _records()
    return cmd == "pass" and rest == pw and all(a == "PASS" or a == "*" * len(pw) for _, _, args in recs for a in args) and all(f == "%s %s" for _, f, _ in recs)

# -- (b) Client.command / Client.login -----------------------------------------------------------------------------
def _cli_login(user_ok, outcome, pw):
    hb.reset_logs()
    c = aioftp.Client(path_io_factory=aioftp.MemoryPathIO)
    replies = [b"331 password required\r\n"]
    replies.append(b"230 normal login\r\n" if outcome else b"530 wrong password\r\n")
    c.stream = LineStream(replies)
    try:
        _drive(c.login("admin", pw))
        res = "ok"
    except aioftp.StatusCodeError:
        res = "refused"
    sent = c.stream.written
    return res, sent, _records()

def _cli_login_ni(outcome, pw1):
    pw2 = "z" * len(pw1)
    res1, sent1, rec1 = _cli_login(True, outcome, pw1)
    res2, sent2, rec2 = _cli_login(True, outcome, pw2)
    ok = sent1[1] == ("PASS " + pw1 + "\r\n").encode("utf-8")   # the wire still carries the real password
    return ok and res1 == res2 and rec1 == rec2 and len(rec1) >= 2

def _cli_command(pw1):
    pw2 = "z" * len(pw1)
    out = []
    for pw in (pw1, pw2):
        hb.reset_logs()
        c = aioftp.Client(path_io_factory=aioftp.MemoryPathIO)
        c.stream = LineStream([b"230 ok\r\n"])
        _drive(c.command("PASS " + pw, ("230", "33x"), censor_after=5))
        out.append(_records())
    return out[0] == out[1] and len(out[0]) >= 1

# -- (c) whole login session through the real dispatcher ------------------------------------------------------------
def _session(kind, pw, secret):
    """kind 0: USER admin + PASS pw ; 1: PASS pw out of sequence ; 2: USER admin, PASS pw, PASS pw (already logged in);
    3: USER nobody + PASS pw"""
    hb.reset_logs()
    loop = hb.new_loop()
    server = aioftp.Server([aioftp.User("admin", secret)], path_io_factory=aioftp.MemoryPathIO)
    server.connections = {}; server.server_port = 21; server.server_host = "h"; server._start_server_extra_arguments = {}
    if kind == 0: lines = ["USER admin", "PASS " + pw]
    elif kind == 1: lines = ["PASS " + pw]
    elif kind == 2: lines = ["USER admin", "PASS " + pw, "PASS " + pw]
    else: lines = ["USER nobody", "PASS " + pw]
    reader = hb.ScriptReader([(1, b"")], eof=True)
    reader.script = [(1, Line(l + "\r\n")) for l in lines] + [(1, Line("QUIT\r\n"))]
    writer = hb.CollectWriter()
    loop.run_until_complete(server.dispatcher(reader, writer))
    codes = [c for c, _, _ in hb.reply_codes(writer)]
    return codes, _records(), writer.data()

def _session_ni(kind, accepted, pw1):
    pw2 = "z" * len(pw1)
    if accepted:
        c1, r1, w1 = _session(kind, pw1, pw1)
        c2, r2, w2 = _session(kind, pw2, pw2)
    else:
        c1, r1, w1 = _session(kind, pw1, "right-one")
        c2, r2, w2 = _session(kind, pw2, "right-one")
    want = {0: ["220", "331", "230" if accepted else "530", "221"], 1: ["220", "503", "221"],
            2: ["220", "331", "230", "503", "221"] if accepted else ["220", "331", "530", "530", "221"],
            3: ["220", "530", "503", "221"]}[kind]
    return c1 == want and c2 == want and r1 == r2 and w1 == w2 and len(r1) >= 3

# concrete warm-up (imports, lazy initialisation) - results deliberately not asserted
_srv_parse_ni(True, False, True, False, "ab"); _srv_parse_bytes("x y"); _cli_login_ni(True, "ab")
_cli_command("a"); _session_ni(0, True, "ab"); _session_ni(2, False, "ab"); _session_ni(3, False, "a")
'''


def build(tier):
    q = tier == "quick"
    n_parse = 4 if q else 6
    n_bytes = 2 if q else 3
    n_cli = 3 if q else 4
    n_sess = 2 if q else 3
    src = hgen.preamble("C20", tier, ROOT) + BODY
    # non-interference against the fixed password 'z'*len(pw1): rec(pw1) == rec(z^n) for every pw1 implies rec(pw1) == rec(pw2)
    # for every pair of equal length (transitivity), at half the symbolic width.
    pre2 = lambda n: [f"len(pw1) <= {n}", "_clean(pw1)"]  # noqa: E731
    src += hgen.cond("srv_parse_command", "b0: bool, b1: bool, b2: bool, b3: bool, pw1: str", pre2(n_parse),
                     "_srv_parse_ni(b0, b1, b2, b3, pw1)", "'parse'")
    src += hgen.cond("srv_parse_command_codec", "pw: str", [f"len(pw) <= {n_bytes}", "_clean(pw)"], "_srv_parse_bytes(pw)", "'codec'")
    src += hgen.cond("cli_login", "outcome: bool, pw1: str", pre2(n_cli) + ["len(pw1) >= 1"],
                     "_cli_login_ni(outcome, pw1)", "'login'")
    src += hgen.cond("cli_command", "pw1: str", pre2(n_cli) + ["len(pw1) >= 1"], "_cli_command(pw1)", "'command'")
    conds = [
        Cond("srv_parse_command", "prop", 120 if q else 600), Cond("srv_parse_command__twin", "twin", 40),
        Cond("srv_parse_command_codec", "prop", 120 if q else 900), Cond("srv_parse_command_codec__twin", "twin", 40),
        Cond("cli_login", "prop", 150 if q else 900), Cond("cli_login__twin", "twin", 40),
        Cond("cli_command", "prop", 120 if q else 900), Cond("cli_command__twin", "twin", 40),
    ]
    for kind in (0, 1, 2, 3):
        for acc in ((True, False) if kind in (0, 2) else (False,)):
            name = f"session_k{kind}_{'acc' if acc else 'rej'}"
            src += hgen.cond(name, "pw1: str", pre2(n_sess) + ["len(pw1) >= 1"],
                             f"_session_ni({kind}, {acc}, pw1)", "'session'")
            conds += [Cond(name, "prop", 150 if q else 900, group="session"), Cond(name + "__twin", "twin", 60, group="session")]
    S, C = aioftp.Server, aioftp.Client
    return Spec(
        pid="C20",
        source=src,
        conds=conds,
        functions_encoded=[S.parse_command, C.command, C.login, C.parse_line, C.parse_response, S.dispatcher, S.user,
                           U(S.pass_), S.write_line, S.write_response, S.response_writer, aioftp.MemoryUserManager.authenticate],
        bounds={
            "password": f"free Unicode strings without CR/LF/trailing whitespace; |pw| <= {n_parse} (parse_command), <= {n_bytes} "
                        f"(through the real utf-8 codec), <= {n_cli} (client), <= {n_sess} (dispatcher sessions); each compared with the fixed password 'z'*len (implies every pair of equal length by transitivity)",
            "verb spelling": "all 16 upper/lower spellings of PASS (4 symbolic booleans)",
            "login outcomes": "accepted, rejected, out of sequence (PASS first), PASS after login, PASS after unknown USER",
        },
        outside=["passwords longer than the bound", "encodings other than utf-8", "custom user managers / loggers configured by the application",
                 "log records produced by asyncio or third-party code"],
        explanation=(
            "Non-interference, decided by CrossHair/z3 on the real code: for two symbolic passwords of equal length the sequences of "
            "(level, fmt, args) received by the recording loggers of aioftp.server and aioftp.client - and the bytes written on the "
            "control channel by the server - are identical, while the handler / the wire still receive the real password. Checked on "
            "Server.parse_command (all spellings of the verb), Client.command(censor_after), Client.login and whole login sessions through "
            "the real Server.dispatcher (accepted / rejected / out-of-sequence / repeated PASS). 'Confirmed over all paths' = holds for every "
            "password pair inside the bound; reachability twins guard against vacuity."
        ),
        assumptions=BASE_ASSUMPTIONS + ["a password is logged only through aioftp's module-level loggers (both replaced by recording stubs)"],
        extra={"stubs": STUBS + ["Line: bytes stand-in whose decode() yields the symbolic string (utf-8 codec covered separately by srv_parse_command_codec)",
                                  "LineStream / ScriptReader / CollectWriter: scripted control channel"]},
    )
