"""C05 - command dispatcher conforms to a sequential FTP session model."""
import aioftp

from .. import hgen
from ..hbase import STUBS
from ..hlib import c05 as L
from ..hlib import model as M
from ..runner import unwrap_all
from .common import BASE_ASSUMPTIONS, ROOT, Cond, Spec

FREE = {"rest": 2, "type": 1, "prot": 2, "epsv": 2}
PATH_VERBS = ("appe", "cwd", "dele", "list", "mkd", "mlsd", "mlst", "retr", "rmd", "rnfr", "rnto", "stor")
LOGIN_ARGS = ["admin", "bob", "secret", "x", ""]
# class representatives: ASCII digit, digit that int() rejects, non-ASCII decimal digit, letter, space, sign, non-ASCII letter, ...
ALPH_REST = ["1", "0", "²", "٠", "x", " ", "-", "é", "+", "𐹠", "_", "😀", "."]
ALPH_WORD = ["I", "A", "P", "i", "x", " ", "é", "C", "E", "😀", "'", '"', "\\"]


def build(tier):
    q = tier == "quick"
    live = sorted(aioftp.Server([aioftp.User()], path_io_factory=aioftp.MemoryPathIO).commands_mapping)
    verbs = live + ["foo"]
    nargs = 5 if q else len(L.PATH_ARGS)
    src = hgen.preamble("C05", tier, ROOT) + "import vlib.hlib.c05 as L\n"
    src += f"LOGIN_ARGS = {LOGIN_ARGS!r}\n"
    conds = []
    T = 200 if q else 1200
    for v in verbs:
        if v in ("user", "pass"):
            # login state is C03's subject; here: replies/state against the model from logged-in and pending states
            params = "ai: int, who: int, logged: bool, rest_b: bool"
            pre = [f"0 <= ai < {len(LOGIN_ARGS)}", "0 <= who <= 2", "not (logged and who == 0)"]
            call = f"L.step({v!r}, LOGIN_ARGS[ai], 0, 0, 2 if rest_b else 0, False, False, logged, who)"
            src += hgen.cond(f"step_{v}", params, pre, call)
            conds += [Cond(f"step_{v}", "prop", T, group=v), Cond(f"step_{v}__twin", "twin", 60, group=v)]
            continue
        params = "ai: int, cwd_i: int, ren_i: int, rest_b: bool, passive: bool, data: bool"
        na_v = nargs if v in PATH_VERBS else (2 if q else 4)
        ren_max = 2 if not q else (1 if v in ("rnfr", "rnto") else 0)
        pre = [f"0 <= ai < {na_v}", "0 <= cwd_i <= 1", f"0 <= ren_i <= {ren_max}", "passive or not data"]
        call = f"L.step({v!r}, L.PATH_ARGS[ai], cwd_i, ren_i, 2 if rest_b else 0, passive, data)"
        parts = [None] if q else [0, 1]
        for part in parts:
            name = f"step_{v}" if part is None else f"step_{v}_c{part}"
            ppre = pre if part is None else pre + [f"cwd_i == {part}"]
            src += hgen.cond(name, params, ppre, call)
            conds += [Cond(name, "prop", T, group=v), Cond(name + "__twin", "twin", 60, group=v)]
        if v in FREE:
            # Mode S (free Unicode string): the handlers format the argument with !r, which realises the string character by
            # character, so this space cannot be exhausted: bug hunt only (kind "search", never counted as discharged)
            n = FREE[v] + (0 if q else 1)
            params = "arg: str, rest_b: bool, passive: bool"
            pre = [f"len(arg) <= {n}", "'\\r' not in arg and '\\n' not in arg and arg == arg.rstrip()"] + (["not rest_b and not passive"] if q else [])
            call = f"L.step({v!r}, arg, 0, 0, 2 if rest_b else 0, passive, False)"
            src += hgen.cond(f"free_{v}", params, pre, call, twin=False)
            conds += [Cond(f"free_{v}", "search", 45 if q else 300, group=v)]
            # Mode A (alphabet product over class representatives of the character tests the code applies): exhaustive
            alph = ALPH_REST if v == "rest" else ALPH_WORD
            if q:
                alph = alph[:9]
            params = "i: int, j: int, rest_b: bool"
            pre = [f"-1 <= i < {len(alph)} and -1 <= j < {len(alph)}", "i >= 0 or j < 0"]
            call = f"L.step({v!r}, (ALPH_{v}[i] if i >= 0 else '') + (ALPH_{v}[j] if j >= 0 else ''), 0, 0, 2 if rest_b else 0, False, False)"
            src += f"ALPH_{v} = {alph!r}\n"
            src += hgen.cond(f"alpha_{v}", params, pre + ["(ALPH_%s[j] if j >= 0 else (ALPH_%s[i] if i >= 0 else 'x')) != ' '" % (v, v)], call)
            conds += [Cond(f"alpha_{v}", "prop", T + 50, group=v), Cond(f"alpha_{v}__twin", "twin", 60, group=v)]
    # harness B: short sessions
    na = len(L.ALPHA)
    firsts = [1, 2, 3, 4, 6, 8, 9, 10, 11, 12, 21, 22] if q else list(range(na))
    for i0 in firsts:
        name = f"seq2_{i0:02d}"
        params = "i1: int, c1: bool, passive: bool"
        pre = [f"0 <= i1 < {na}"] + (["passive"] if q else [])
        call = f"L.seq({i0}, i1, 0, c1, False, passive, 2)"
        src += hgen.cond(name, params, pre, call)
        conds += [Cond(name, "prop", T, group="seq2"), Cond(name + "__twin", "twin", 60, group="seq2")]
    # REST n, <any command>, RETR: the offset must not leak past the intervening command (and applies when it is the transfer itself)
    src += hgen.cond("seq3_rest_x_retr", "i1: int, c1: bool, c2: bool", [f"0 <= i1 < {na}"], "L.seq(1, i1, 3, c1, c2, True, 3)")
    conds += [Cond("seq3_rest_x_retr", "prop", T + 100, group="seq3"), Cond("seq3_rest_x_retr__twin", "twin", 60, group="seq3")]
    if not q:
        # three-command sessions: restart-offset scoping and rename pairing across an intervening command
        third = [3, 4, 5, 7, 0, 11]  # RETR, STOR, APPE, RNTO, PWD, NOOP
        for i0 in (1, 6, 8, 9, 3, 4):  # REST 2, RNFR, PASV, EPSV, RETR, STOR
            for i2 in third:
                name = f"seq3_{i0:02d}_{i2:02d}"
                params = "i1: int, c1: bool, c2: bool"
                pre = [f"0 <= i1 < {na}"]
                call = f"L.seq({i0}, i1, {i2}, c1, c2, True, 3)"
                src += hgen.cond(name, params, pre, call)
                conds += [Cond(name, "prop", T, group="seq3"), Cond(name + "__twin", "twin", 60, group="seq3")]
    src += "\nfor _v in " + repr(verbs) + ":\n    L.step(_v, 'a', 0, 1, 2, True, True); L.step(_v, 'a', 1, 0, 0, False, False)\nL.seq(1, 3, 3, True, True, True, 3)\n"
    S = aioftp.Server
    m = S([aioftp.User()], path_io_factory=aioftp.MemoryPathIO).commands_mapping
    enc = [S.dispatcher, S.response_writer, S.write_response, S.write_line, S.parse_command, S.get_paths,
           aioftp.ConnectionConditions.__call__, aioftp.PathConditions.__call__, aioftp.PathPermissions.__call__, aioftp.server.worker]
    for v in live:
        enc.append(unwrap_all(m[v].__func__)[-1])
    return Spec(
        pid="C05",
        source=src,
        conds=conds,
        functions_encoded=enc,
        bounds={
            "pre-state (harness A)": "logged-in session of user bob (login states: C03); cwd in {/, /a}; pending rename in {none, /a/f" + (" (quick: only for RNFR/RNTO)" if q else ", a vanished source") + "}; restart offset in {0, 2}; passive listener and data connection present or not - all symbolic",
            "argument (harness A)": f"path verbs: first {nargs} of {L.PATH_ARGS}; REST/TYPE/PROT/EPSV additionally (Mode A, exhaustive) every string of <= 2 characters over the class-representative alphabets {ALPH_REST[:9] if q else ALPH_REST} / {ALPH_WORD[:9] if q else ALPH_WORD} and (Mode S, search only) a free Unicode string of length <= {2 if q else 3}; USER/PASS: {LOGIN_ARGS}",
            "sessions (harness B)": f"2 commands: first fixed per condition, second symbolic over the {na}-entry alphabet {L.ALPHA}, with or without a data connection being made before it" + ("" if q else "; 3 commands: first in {REST 2, RNFR, PASV, EPSV, RETR, STOR}, second symbolic, third in {RETR, STOR, APPE, RNTO, PWD, NOOP}"),
            "tree": str(L.TREE), "payload": "2 bytes", "block size": 3,
        },
        outside=["sessions longer than 3 commands at session level (longer histories only through the one-step induction)", "pipelined commands",
                 "arguments outside the universes", "permissions (C04)", "backends other than MemoryPathIO (C18)"],
        explanation=(
            "The real Server.dispatcher (parse_command, handler with its decorator stack, restart-offset post-step, 451 mapping, 502 for unknown verbs, "
            "response queue and write_response) is executed symbolically by CrossHair from a symbolic pre-state injected into the dispatcher's own Connection; "
            "replies (exact codes, order, one final reply per command / 150 then one completion), resulting login state, cwd, pending rename, restart offset, "
            "passive/data flags and the whole tree are compared with an independent sequential reference model (vlib/hlib/model.py); the session may end only "
            "where the model says so. Harness B runs 2-3 command sessions with a symbolic middle command to cover reply order, offset scoping and RNFR/RNTO pairing."
        ),
        assumptions=BASE_ASSUMPTIONS + ["the reference model is the specification (written from RFC 959/2428/3659 and aioftp's documentation)",
                                        "commands are sent one at a time (each line is delivered after the previous command was fully processed)"],
        extra={"stubs": STUBS + ["asyncio.start_server -> Listeners stub; the 'client connects' event calls the handler callback registered by PASV/EPSV",
                                  "HookReader/CollectWriter/ScriptReader: scripted control and data channels", "SpyPathIO ledger backend"]},
    )
