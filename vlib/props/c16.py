"""C16 - configured timeouts bound how long a stalled peer can hold a session."""
import aioftp
from aioftp import common as com

from .. import hgen
from ..hbase import STUBS
from ..hlib import c16 as L
from .common import BASE_ASSUMPTIONS, ROOT, Cond, Spec


def build(tier):
    q = tier == "quick"
    src = hgen.preamble("C16", tier, ROOT) + "import vlib.hlib.c16 as L\n"
    conds = []
    Tm = 250 if q else 1200
    for n in range(0, 4):
        name = f"idle_{n}"
        src += hgen.cond(name, "T: int, g1: int, g2: int, g3: int", ["1 <= T <= 1000", "0 <= g1 <= 2000 and 0 <= g2 <= 2000 and 0 <= g3 <= 2000"], f"L.idle(T, g1, g2, g3, {n})", sig="hb.KEY")
        conds += [Cond(name, "prop", Tm, group="idle"), Cond(name + "__twin", "twin", 60, group="idle")]
    for ki in range(5 if not q else 3):
        name = f"no_data_connection_{ki}"
        src += hgen.cond(name, "W: int, g: int, idle_on: bool", ["1 <= W <= 1000", "2 <= g <= 1000", "W != g"], f"L.no_data_connection(W, 5000 if idle_on else None, g, {ki})", sig="hb.KEY")
        conds += [Cond(name, "prop", Tm, group="425"), Cond(name + "__twin", "twin", 60, group="425")]
    for up in (False, True):
        for n_ok in range(0, 3):
            name = f"data_stall_{'up' if up else 'down'}_{n_ok}"
            src += hgen.cond(name, "S: int, T: int, idle_on: bool, d: int, use_epsv: bool", ["1 <= S <= 1000", "16 <= T <= 3000", "1 <= d <= 1000"], f"L.data_stall(S, T if idle_on else None, d, {n_ok}, {up}, use_epsv)", sig="hb.KEY")
            conds += [Cond(name, "prop", Tm, group="stall"), Cond(name + "__twin", "twin", 60, group="stall")]
    src += hgen.cond("control_write_stall", "S: int, T: int", ["1 <= S <= 1000", "6 <= T <= 3000", "S != T"], "L.control_write_stall(S, T)", sig="hb.KEY")
    conds += [Cond("control_write_stall", "prop", Tm, group="ctrl"), Cond("control_write_stall__twin", "twin", 60, group="ctrl")]
    src += "\nL.idle(10, 3, 14, 1, 3); L.no_data_connection(5, None, 10, 0); L.data_stall(5, 100, 2, 1, True); L.data_stall(5, None, 2, 1, False); L.control_write_stall(4, 9)\n"
    S = aioftp.Server
    return Spec(
        pid="C16", source=src, conds=conds,
        functions_encoded=[com.with_timeout, com.StreamIO.__init__, com.StreamIO.readline, com.StreamIO.read, com.StreamIO.write, com.ThrottleStreamIO.read, com.ThrottleStreamIO.write,
                           S.dispatcher, aioftp.ConnectionConditions.__call__, S.parse_command, S.response_writer],
        bounds={
            "time": "integer virtual milliseconds on VLoop; idle_timeout T, socket_timeout S, wait_future_timeout W symbolic in 1..1000 (T up to 3000), gaps between commands symbolic in 0..2000: "
                    "the solver decides the order in which timers expire, each explored path stands for a whole region of timings",
            "idle": "0..3 commands (USER, SYST, PWD) each after a symbolic gap, then silence",
            "425": "PASV then RETR/STOR/LIST" + ("" if q else "/MLSD/APPE") + " with no data connection ever made; commands g ms apart",
            "data stall": "data connection built by the real PASV or EPSV handler; upload whose sender delivers 0..2 blocks d ms apart and then stops; download whose receiver stops reading after 0..2 blocks; idle timeout on or off",
            "control write stall": "peer stops reading the control channel after the greeting",
        },
        outside=["float timeouts (the virtual clock is an integer)", "path_timeout (only effective on AsyncPathIO)", "real sockets: kernel buffering delays when a stall becomes visible"],
        explanation=(
            "The real dispatcher, StreamIO/ThrottleStreamIO with their with_timeout wrappers and ConnectionConditions(wait=True) run on a virtual-time loop with SYMBOLIC timeout values and gaps (CrossHair/z3): "
            "a silent session is closed at exactly last-command time + idle_timeout, never earlier and never while commands keep arriving within it; a transfer without data connection gets 425 at exactly "
            "+wait_future_timeout and the session continues; a stalled data connection is given up exactly socket_timeout after it last moved (or earlier only because the idle timeout released the whole "
            "session); a blocked control write is bounded by socket_timeout; after every release the C12 ledger is clean (control and data sockets closed, connection table empty, no listener)."
        ),
        assumptions=BASE_ASSUMPTIONS + ["ties between two timers / a timer and an arriving line at the same virtual instant are accepted either way"],
        extra={"stubs": STUBS + ["HookReader / StallReader / CollectWriter(block_after): scripted control and data sockets with symbolic delays"]},
    )
