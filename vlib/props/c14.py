"""C14 - ABOR at any moment stops the transfer, is answered, and keeps the session usable."""
import aioftp

from .. import hgen
from ..hbase import STUBS
from ..hlib import c14 as L
from .common import BASE_ASSUMPTIONS, ROOT, Cond, Spec
from ..runner import innermost as U


def build(tier):
    q = tier == "quick"
    src = hgen.preamble("C14", tier, ROOT) + "import vlib.hlib.c14 as L\n"
    conds = []
    T = 250 if q else 1500
    K = 45 if q else 60
    for ki, kind in enumerate(L.KINDS):
        for mode, (wd, late) in {"nodata": (False, False), "data": (True, False), "late": (True, True)}.items():
            name = f"abor_{kind}_{mode}"
            params = "k: int, bs: int, follow_i: int"
            kk = K if mode != "nodata" else 12
            pre = [f"0 <= k <= {kk}", "bs in (1, 3)", "0 <= follow_i <= 3"]
            if q:
                pre += ["bs == 1" if kind in ("retr", "stor") else "bs == 3", "follow_i == k % 4"]
            else:
                pre += ["follow_i == (k + bs) % 4"]  # every follow-up is met at many arrival points and with both block sizes (the full product is 8 x the work)
            src += hgen.cond(name, params, pre, f"L.session({ki}, k, bs, {wd}, {late}, follow_i)", sig="hb.KEY")
            conds += [Cond(name, "prop", T, group=kind), Cond(name + "__twin", "twin", 60, group=kind)]
        # the same with a backend whose calls suspend (AsyncPathIO timing): ABOR can arrive INSIDE a backend call of the worker
        name = f"abor_{kind}_slow"
        ks = 24 if q else K
        pre = [f"0 <= k <= {ks}", "bs == 3", "0 <= follow_i <= 3", f"1 <= lat <= {1 if q else 3}", "late == (k % 2 == 1)" if q else "True"]
        pre += ["follow_i == k % 4"] if q else ["follow_i == (k + lat) % 4", "late == ((k + lat) % 2 == 1)"]
        src += hgen.cond(name, "k: int, bs: int, follow_i: int, lat: int, late: bool", pre, f"L.session({ki}, k, bs, True, bool(late), follow_i, lat)", sig="hb.KEY")
        conds += [Cond(name, "prop", T, group=kind), Cond(name + "__twin", "twin", 60, group=kind)]
    src += "\nfor _i in range(5):\n    L.session(_i, 7, 1, True, False, 1); L.session(_i, 0, 3, False, False, 2)\n"
    S = aioftp.Server
    return Spec(
        pid="C14", source=src, conds=conds,
        functions_encoded=[U(S.abor), aioftp.server.worker, aioftp.ConnectionConditions.__call__, S.dispatcher, U(S.retr),
                           U(S.stor), U(S.list), U(S.mlsd)],
        bounds={
            "transfer": f"{L.KINDS}; 7-byte file / 7-byte upload arriving byte by byte 1 virtual ms apart; server block size in (1, 3)",
            "ABOR arrival": f"delivered at the k-th event-loop iteration after the 150 mark was written, k symbolic in 0..{K} (covers: before the data connection is made, every byte position, after completion); "
                            "data connection already made, never made, or made a few iterations after the 150 mark",
            "slow backend": f"every backend call of the session suspends for 1..{1 if q else 3} virtual ms (MemoryPathIO semantics, AsyncPathIO timing), ABOR at iteration 0..{24 if q else K}, data connection made at once or late",
            "follow-up": f"{L.FOLLOW}: PWD, a fresh download, a fresh upload, a second ABOR" + (" (quick: chosen as k mod 4)" if q else " (chosen as (k + block size) mod 4)"),
        },
        outside=["ABOR pipelined before the 150 mark of its transfer was sent", "files longer than 7 bytes", "several concurrent transfers on one session", "real sockets / TLS"],
        explanation=(
            "The real dispatcher runs PASV, a transfer command and an ABOR that arrives at a SYMBOLIC loop iteration after the 150 mark (CrossHair/z3 enumerate and certify every arrival point in the bound), "
            "with the data connection made, withheld or made late. Asserted: between the 150 mark and the follow-up the control channel carries exactly [completion, 226], [426, 226] or [425, 226]; the session "
            "is not torn down; the transfer's data connection is closed when the session has ended, whoever held it when ABOR arrived; downloaded / stored bytes are a prefix of the content; the follow-up (PWD, fresh download, fresh upload, second ABOR) succeeds."
        ),
        assumptions=BASE_ASSUMPTIONS + ["the client sends ABOR only after it has seen the 150 mark (commands one at a time)"],
        extra={"stubs": STUBS + ["IterReader: control reader delivering ABOR at a loop iteration counted by VLoop.on_iteration", "Listeners stub; the client's data connections call the handler callback registered by PASV"]},
    )
