"""C07 - listings and stats report the backend's truth (MLSD, MLST, LIST fallback)."""
import calendar
import json
import os
import time

import z3

import aioftp
from aioftp import client as cli

from .. import hgen
from .. import pysym as P
from ..hbase import STUBS
from ..hlib import c07 as L
from ..hlib import c07k as K
from .common import BASE_ASSUMPTIONS, ROOT, Cond, Spec
from ..runner import innermost as U


def date_plane(tier):
    def run():
        q = tier == "quick"
        t0 = time.time()
        P.STATS["feasibility_checks"] = 0
        P.STATS["solver_s"] = 0.0
        n_fmt, err = K.validate_formats()
        if err:
            return {"error": err}
        ylo, yhi = (1971, 2104)
        try:
            pl = K.Plane(ylo, yhi).explore()
        except P.Unsupported as e:
            # the source uses a construct the interpreter does not support: the z3 part is INCONCLUSIVE; fall back to a
            # concrete boundary sweep of the real functions so that the check does not pass silently
            n, bad = K.fallback_sweep()
            viol = []
            for w, text, got, want in bad[:1]:
                d = os.path.join(ROOT, "replays", "C07")
                os.makedirs(d, exist_ok=True)
                path = os.path.join(d, f"{tier}_fallback_0.py")
                with open(path, "w") as f:
                    f.write("#!/verif/.venv/bin/python\n# concrete boundary sweep (fallback): real build_list_mtime / parse_ls_date. Exit 1 = reproduced.\n"
                            f"import sys\nsys.path.insert(0, {ROOT!r})\nfrom vlib.hlib import c07k\nw = {w!r}\ntext, got = c07k.replay_witness(w)\n"
                            f"print(text, got, 'expected', {want!r})\nsys.exit(1 if got != {want!r} else 0)\n")
                viol.append({"key": "date:fallback-sweep", "replay": path, "call": json.dumps(w),
                             "what": f"fallback sweep (interpreter does not support the current source: {e}): mtime {w['mtime']} listed at {w['server_now']} as {text!r} parsed at {w['client_now']} as {got!r}, expected {want!r}"})
            return {"violations": viol, "evaluations": n, "inconclusive": 1, "sigs": ["fallback-sweep"],
                    "summary": f"Z3 KERNEL INCONCLUSIVE: interpreter does not support the current source ({e}); fallback concrete sweep over {n} boundary cases found {len(bad)} mismatches"}
        nv, bad = K.validate_translator(pl)
        if bad:
            return {"error": f"translator disagreement on the repository's own vectors: {bad[:2]}", "evaluations": len(pl.results)}
        M, S, C = pl.M, pl.S, pl.C
        HALF = K.HALF
        recent = lambda f: f == "%b %e %H:%M"  # noqa: E731
        yearform = lambda f: f == "%b %e  %Y"  # noqa: E731
        notfeb = z3.Not(z3.And(M.f[1] == 2, M.f[2] == 29))
        inside = M.epoch() > S.epoch() - HALF + 86400
        violations, samples, unknown = [], [], 0
        queries = []

        def run_query(name, select, extra, want, expect="unsat"):
            nonlocal unknown
            verdict, w = pl.query(name, select, extra, want)
            queries.append({"query": name, "verdict": verdict})
            if verdict == "unknown":
                unknown += 1
            if expect == "unsat" and verdict == "sat":
                text, real = K.replay_witness(w)
                m = w["mtime"]
                truth_min = "%04d%02d%02d%02d%02d00" % tuple(m[:5])
                truth_day = "%04d%02d%02d000000" % tuple(m[:3])
                want_real = truth_min if select is recent else truth_day
                if real != want_real:
                    d = os.path.join(ROOT, "replays", "C07")
                    os.makedirs(d, exist_ok=True)
                    path = os.path.join(d, f"{tier}_date_{len(violations)}.py")
                    with open(path, "w") as f:
                        f.write("#!/verif/.venv/bin/python\n# z3 witness replayed on the real build_list_mtime / parse_ls_date (TZ=UTC). Exit 1 = reproduced.\n"
                                f"import sys\nsys.path.insert(0, {ROOT!r})\nfrom vlib.hlib import c07k\nw = {w!r}\ntext, got = c07k.replay_witness(w)\n"
                                f"print(text, got, 'expected', {want_real!r})\nsys.exit(1 if got != {want_real!r} else 0)\n")
                    violations.append({"key": "date:" + name, "replay": path, "call": json.dumps(w),
                                       "what": f"{name}: mtime {m} listed at {w['server_now']} as {text!r}, parsed at {w['client_now']} as {real!r}, expected {want_real!r}"})
                else:
                    return f"witness of '{name}' does not reproduce natively: {w} -> {text!r} -> {real!r}"
            if expect == "sat":
                if verdict != "sat":
                    return f"expected witness for '{name}' not found ({verdict})"
                text, real = K.replay_witness(w)
                samples.append({"query": name, "solver_witness": w, "listed_as": text, "parsed_as": real})
            return None

        steps = [
            ("(i) minute precision inside the half year, not Feb 29", recent, [inside, notfeb], M.f[:5], "unsat"),
            ("(ii) day precision in the year form", yearform, [], (M.f[0], M.f[1], M.f[2], z3.IntVal(0), z3.IntVal(0)), "unsat"),
            ("(v) parse_ls_date raises nothing but ValueError on rendered dates", lambda f: True, [], None, "unsat"),
            ("boundary-day witness (shows the exemption is needed)", recent, [notfeb], M.f[:5], "sat"),
        ]
        leap_years = [y for y in range(ylo, yhi + 1) if calendar.isleap(y)]
        if q:
            leap_years = [1972, 1996, 2000, 2024, 2096, 2104]
        for y in leap_years:
            steps.append((f"(i) Feb 29 {y}", recent, [inside, M.f[0] == y, M.f[1] == 2, M.f[2] == 29], M.f[:5], "unsat"))
        for name, sel, extra, want, expect in steps:
            err = run_query(name, sel, extra, want, expect)
            if err:
                return {"error": err, "evaluations": len(pl.results)}
        # (iii) the formatter uses the year-less form exactly on now - H < mtime <= now
        for pc, (kind, rendered) in pl.fmt_paths:
            s = z3.Solver()
            s.set("timeout", 60000)
            s.add(*pc)
            inwin = z3.And(S.epoch() - HALF < M.epoch(), M.epoch() <= S.epoch())
            if kind != "ret" or not isinstance(rendered, K.Rendered):
                violations.append({"key": "date:formatter-raises", "what": f"build_list_mtime raises {rendered}", "call": "None"})
                continue
            s.add(z3.Not(inwin) if rendered.fmt == "%b %e %H:%M" else inwin)
            r = s.check()
            pl.stats["queries"] += 1
            queries.append({"query": f"(iii) form choice {rendered.fmt!r}", "verdict": str(r)})
            if r == z3.sat:
                m = s.model()
                ev = lambda e: m.eval(e, model_completion=True).as_long()  # noqa: E731
                w = {"mtime": [ev(x) for x in M.f], "server_now": [ev(x) for x in S.f], "client_now": [ev(x) for x in S.f]}
                text, _ = K.replay_witness(w)
                age_ok = (":" in text) == (rendered.fmt == "%b %e %H:%M")  # the real function picks the other form here, too
                if not age_ok:
                    return {"error": f"form-choice witness does not reproduce natively: {w} -> {text!r}", "evaluations": len(pl.results)}
                d = os.path.join(ROOT, "replays", "C07")
                os.makedirs(d, exist_ok=True)
                path = os.path.join(d, f"{tier}_form_{len(violations)}.py")
                with open(path, "w") as f:
                    f.write("#!/verif/.venv/bin/python\n# z3 witness replayed on the real build_list_mtime (TZ=UTC). Exit 1 = the wrong form is chosen.\n"
                            f"import sys\nsys.path.insert(0, {ROOT!r})\nfrom vlib.hlib import c07k\nw = {w!r}\ntext, got = c07k.replay_witness(w)\nprint(text)\n"
                            f"sys.exit(1 if (':' in text) == {rendered.fmt == '%b %e %H:%M'!r} else 0)\n")
                violations.append({"key": "date:form-choice", "replay": path, "call": json.dumps(w), "what": f"(iii) mtime {w['mtime']} at {w['server_now']} is listed as {text!r}: wrong form for its age"})
            elif r != z3.unsat:
                unknown += 1
        return {"violations": violations, "evaluations": len(pl.results) + len(pl.fmt_paths), "sigs": [f"{f}:{o[0]}" for f, _, o in pl.results], "samples": samples,
                "discharged": pl.stats["queries"] - unknown, "inconclusive": unknown, "solver_s": round(pl.stats["solver_s"] + P.STATS["solver_s"], 1), "queries": pl.stats["queries"],
                "summary": f"{len(pl.fmt_paths)} formatter paths x parser = {len(pl.results)} composed paths, {pl.stats['queries']} z3 queries ({queries[:4]} ...), format model validated on {n_fmt} "
                           f"field combinations, {nv} repository vectors through real code and interpreter, {round(time.time() - t0, 1)} s"}
    return run


def build(tier):
    q = tier == "quick"
    src = hgen.preamble("C07", tier, ROOT) + "import vlib.hlib.c07 as L\n"
    conds = []
    T = 200 if q else 1200
    nn = 6 if q else len(L.NAMES)
    nm = 6 if q else len(L.MTIMES)
    # size: a SYMBOLIC integer inside each digit-count class (str(int) / isdigit realise it: one class per condition)
    classes = [(0, 9), (10, 99), (100, 9999), (10 ** 4, 10 ** 6), (2 ** 31 - 2, 2 ** 31 + 2), (2 ** 40 - 1, 2 ** 40 + 1)]
    for fn in ("mlsx_roundtrip", "list_roundtrip"):
        for ci, (lo, hi) in enumerate(classes):
            name = f"{fn}_size{ci}"
            pre = [f"{lo} <= size <= {hi}", f"0 <= ni < {nn} and 0 <= mi < {nm}"]
            if q:
                pre.append("size in (%d, %d, %d)" % (lo, (lo + hi) // 2, hi))
                pre.append("ni == mi or ni == 0" if ci else "True")
            elif fn == "list_roundtrip":
                # the LIST line needs a concrete size (see hlib): boundary members of the class, not the whole class
                pre.append("size in (%d, %d, %d, %d, %d)" % (lo, min(lo + 1, hi), (lo + hi) // 2, max(hi - 1, lo), hi))

            src += hgen.cond(name, "is_dir: bool, ni: int, size: int, mi: int", pre, f"L.{fn}(is_dir, ni, size, mi)", sig="hb.KEY")
            conds += [Cond(name, "prop", T, group=fn), Cond(name + "__twin", "twin", 60, group=fn)]
    for verb in ("mlsd", "list"):
        name = f"complete_{verb}"
        src += hgen.cond(name, "k0: int, k1: int, k2: int, k3: int, target_is_file: bool", ["0 <= k0 <= 2 and 0 <= k1 <= 2 and 0 <= k2 <= 2 and 0 <= k3 <= 2"] + (["k3 == 0"] if q else []),
                         f"L.completeness({verb!r}, k0, k1, k2, k3, target_is_file)", sig="hb.KEY")
        conds += [Cond(name, "prop", T, group=verb), Cond(name + "__twin", "twin", 60, group=verb)]
    src += "\nL.mlsx_roundtrip(False, 1, 12345, 2); L.list_roundtrip(True, 2, 0, 3); L.completeness('mlsd', 1, 2, 0, 1, False); L.completeness('list', 1, 2, 0, 1, True)\n"
    S, C = aioftp.Server, aioftp.Client
    return Spec(
        pid="C07", source=src, conds=conds,
        functions_encoded=[S.build_list_mtime, cli.BaseClient.parse_ls_date.__func__, cli.BaseClient.format_date_time, S._format_mlsx_time, S._build_mlsx_facts_from_stats, S.build_mlsx_string,
                           S.build_list_string, cli.BaseClient.parse_mlsx_line, cli.BaseClient.parse_list_line_unix, cli.BaseClient.parse_unix_mode, cli.BaseClient.parse_list_line,
                           U(S.mlsd), U(S.list), U(S.mlst), calendar.isleap],
        bounds={
            "date plane (z3 over the interpreted source)": "mtime, server 'now' and client 'now' as civil fields 1971..2104 with 0 <= client_now - server_now <= 3600 s; zone = one fixed offset shared by both sides; "
                                                           "Feb 29 partitioned by leap year" + (" (quick: 6 leap years incl. 2000, 2096, 2104)" if q else " (all 33)") + "; the one-day window at the half-year boundary is exempt (a witness for it is produced and replayed)",
            "field round trip (CrossHair)": f"size a symbolic integer in each digit-count class up to 2**40+1; type file/dir; names {L.NAMES[:nn]}; modification times {nm} boundary classes (now, yesterday, inside / outside the half year, future, epoch+1, leap day, year end)",
            "completeness (CrossHair)": "directory of 0..4 entries each absent/file/dir (symbolic), listing a directory or a file, MLSD + MLST of every entry, LIST",
        },
        outside=["DST / zone changes between formatting and parsing, zones that differ between server and client", "years outside 1971..2104", "locales other than C (the code forces C)", "float mtimes (integer seconds)",
                 "names: C08's subject (a small representative set here)", "Windows-style LIST lines produced by other servers (C19)"],
        explanation=(
            "Date plane: the CURRENT source of Server.build_list_mtime, Client.parse_ls_date (incl. its Feb-29 loop, calendar.isleap interpreted from its own source) and format_date_time is executed by the pysym "
            "interpreter over z3 integers with time.localtime/strftime/strptime/replace/subtraction modelled on civil fields; z3 shows for every mtime/now pair in the bound: minute precision inside the half "
            "year, day precision in the year form, the form is chosen exactly by age, nothing but ValueError can be raised; the format model is validated exhaustively against the real library and the repository's own "
            "vectors go through both real code and interpreter; every witness is replayed on the real functions. Fields: CrossHair runs build_mlsx_string/build_list_string -> parse_mlsx_line/parse_list_line with a symbolic "
            "size. Completeness: MLSD/LIST/MLST through the real dispatcher on symbolic directory contents."
        ),
        assumptions=BASE_ASSUMPTIONS + ["time.localtime is a fixed offset from UTC, the same for server and client", "strptime/strftime behave as the validated format model"],
        native=[("date_plane_z3", date_plane(tier))],
        extra={"stubs": STUBS + ["pysym models: time.localtime, time.strftime, datetime.strptime, datetime.replace, datetime subtraction/total_seconds, setlocale (no-op)",
                                  "StatPathIO: MemoryPathIO reporting a chosen st_size", "client 'now' fixed to the harness clock for list_roundtrip"]},
    )
