"""C17 - concurrent sessions do not interfere with each other."""
import aioftp

from .. import hgen
from ..hbase import STUBS
from ..hlib import c17 as L
from .common import BASE_ASSUMPTIONS, ROOT, Cond, Spec
from ..runner import innermost as U


def build(tier):
    q = tier == "quick"
    src = hgen.preamble("C17", tier, ROOT) + "import vlib.hlib.c17 as L\n"
    conds = []
    T = 250 if q else 1500
    live = sorted(aioftp.Server([aioftp.User()], path_io_factory=aioftp.MemoryPathIO).commands_mapping)
    verbs = [v for v in live if v in L.ARGS_A] + ["foo"]
    missing = [v for v in live if v not in L.ARGS_A]
    params = "same_user: bool, b_logged: bool, b_cwd_i: int, b_rename: bool, b_rest: bool, b_passive: bool, b_data: bool, b_type: bool, a_data: bool"
    for v in verbs:
        name = f"frame_{v}"
        pre = ["0 <= b_cwd_i <= 2"]
        if q:
            pre += ["b_rename and b_rest and b_type and b_passive", "b_cwd_i >= 1"]
        src += hgen.cond(name, params, pre, f"L.frame({v!r}, same_user, b_logged, b_cwd_i, b_rename, b_rest, b_passive, b_data, b_type, a_data)", sig="hb.KEY")
        conds += [Cond(name, "prop", T, group=v), Cond(name + "__twin", "twin", 60, group=v)]
    for bk in range(4):
        name = f"inflight_{bk}"
        src += hgen.cond(name, "ev_i: int, connect_late: bool", [f"0 <= ev_i < {len(L.A_EVENTS)}"], f"L.inflight(ev_i, {bk}, connect_late)", sig="hb.KEY")
        conds += [Cond(name, "prop", T, group="inflight"), Cond(name + "__twin", "twin", 60, group="inflight")]
    src += hgen.cond("passive_delivery", "a_first: bool", [], "L.passive_delivery(a_first)")
    conds += [Cond("passive_delivery", "prop", T, group="passive"), Cond("passive_delivery__twin", "twin", 60, group="passive")]
    for sa in range(3):
        for sb in range(3):
            if q and (sa, sb) not in ((0, 1), (1, 2), (2, 0)):
                continue
            for su in (False, True):
                name = f"pair_{sa}{sb}_{'same' if su else 'diff'}"
                src += hgen.cond(name, "lat_a: int, lat_b: int", ["1 <= lat_a <= 3 and 1 <= lat_b <= 3"] + (["lat_a != lat_b"] if q else []), f"L.pair_check({sa}, {sb}, lat_a, lat_b, {su})", sig="hb.KEY")
                conds += [Cond(name, "prop", T + 200, group="pair"), Cond(name + "__twin", "twin", 120, group="pair")]
    src += "\nfor _v in " + repr(verbs) + ":\n    L.frame(_v, True, True, 1, True, True, True, True, True, True)\nL.inflight(0, 0, True); L.inflight(1, 1, False); L.passive_delivery(True); L.precompute(); L.pair_check(0, 1, 1, 2, True)\n"
    S = aioftp.Server
    return Spec(
        pid="C17", source=src, conds=conds,
        functions_encoded=[S.dispatcher, U(S.pasv), U(S.epsv), S.user, aioftp.pathio.PathIONursery.__call__, aioftp.Connection.__init__] ,
        bounds={
            "frame condition": f"session A executes one command (each verb of the live table + an unknown one: {verbs}) while session B rests in a symbolic state: same or different user, logged in or not, cwd in 3 places, "
                               "pending rename / restart offset / passive listener / data connection / transfer type present or not" + (" (quick: rename, offset, type, listener always present)" if q else ""),
            "transfer in flight": f"session B is mid-transfer (RETR / STOR / LIST / MLSD; worker waiting for its data connection, or moving data on a slow socket) while session A does one of {L.A_EVENTS}",
            "passive delivery": "two sessions with one passive listener each (PASV / EPSV), data connections made in either order",
            "pairs": "two real Clients over SimNet on disjoint subtrees running {upload, download at an offset, rename + TYPE + REST + list}; per-client network latency 1..3 ms (symbolic) decides the interleaving; same or different user",
        },
        outside=["more than two sessions", "sessions working on the same paths (no isolation promised there)", "interleavings below the granularity of network deliveries in the pair harness (the frame condition covers single steps)"]
                + ([f"verbs without a frame argument in the harness table: {missing}"] if missing else []),
        explanation=(
            "Frame condition on the real dispatcher: two sessions live on one Server (no mutable container of one session's Connection is the same object in the other's); while A executes one command, every entry of B's Connection container (identity of futures' results and values: login state, cwd, "
            "pending rename, restart offset, transfer type, passive listener, data connection), B's transcript and B's data connection stay untouched, and B's next PWD still answers from B's own state. "
            "Accepted data connections reach the session owning the listener. Two real clients interleaved by symbolic latencies get exactly the results of their solo runs and the final tree is the union of the solo effects."
        ),
        assumptions=BASE_ASSUMPTIONS,
        extra={"stubs": STUBS + ["scripted channels for the frame condition; SimNet with per-session latency for the pair harness"]},
    )
