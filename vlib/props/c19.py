"""C19 - malformed input from the peer is contained on both sides."""
import aioftp
from aioftp import client as cli

from .. import hgen
from ..hbase import STUBS
from ..hlib import c19 as L
from .common import BASE_ASSUMPTIONS, ROOT, Cond, Spec


def long_run_probe(tier):
    def run():
        import json
        import os
        import tempfile

        from ..hlib import c19n as N

        os.makedirs(os.path.join(ROOT, "work"), exist_ok=True)
        d = tempfile.mkdtemp(prefix="c19n_", dir=os.path.join(ROOT, "work"))
        try:
            n, bad = N.run_all(d)
        finally:
            import shutil

            shutil.rmtree(d, ignore_errors=True)
        viol = []
        rd = os.path.join(ROOT, "replays", "C19")
        os.makedirs(rd, exist_ok=True)
        for i, b in enumerate(bad[:4]):
            path = os.path.join(rd, f"{tier}_longrun_{i}.py")
            with open(path, "w") as f:
                f.write("#!/verif/.venv/bin/python\n# a parser of the client does not answer in bounded time on this line. Exit 1 = reproduced.\n"
                        f"import sys\nsys.path.insert(0, {ROOT!r})\nfrom vlib.hlib import c19n\nsys.exit(c19n.replay({b['parser']!r}, {b['input'].encode('utf-8').hex()!r}))\n")
            viol.append({"key": "parser:no-answer-in-bounded-time", "replay": path, "call": json.dumps({"parser": b["parser"], "input": b["input"][:120]}), "what": b["what"]})
        return {"violations": viol, "evaluations": n, "sigs": ["long-run-probe"], "discharged": 0,
                "summary": f"auxiliary, measured (not a solver verdict): {n} lines with a {N.RUN}-character run through {len(N.TEMPLATES)} client parsers, each answered within {N.SLOW_S} s" if not bad else f"{len(bad)} probes without a timely answer"}
    return run


def build(tier):
    q = tier == "quick"
    src = hgen.preamble("C19", tier, ROOT) + "import vlib.hlib.c19 as L\n"
    conds = []
    T = 250 if q else 1500
    A = len(L.ALPH_L)
    Aq = 12 if q else A
    # 1. short arbitrary listing lines (Mode A), partitioned by first character
    for i in range(Aq):
        name = f"list_alpha_{i:02d}"
        src += hgen.cond(name, "j: int, k: int, m: int", [f"-1 <= j < {Aq} and -1 <= k < {Aq} and -1 <= m < {Aq if not q else 0}"], f"L.list_line_alpha({i}, j, k, m)")
        conds += [Cond(name, "prop", T, group="list_line"), Cond(name + "__twin", "twin", 40, group="list_line")]
    # 2. mutations of valid lines
    for ti, t in enumerate(L.TEMPLATES):
        step = 12 if q else 8
        for lo in range(0, len(t) + 1, step):
            hi = min(lo + step - 1, len(t))
            name = f"list_mut_t{ti}_{lo:02d}"
            pre = [f"{lo} <= p <= {hi}", f"-1 <= i < {Aq}", f"-1 <= j < {4 if q else 8}", "0 <= cut <= 3", "i >= 0 or j < 0"] + (["cut in (0, 1)", "j < 0 or i == 6"] if q else [])
            src += hgen.cond(name, "p: int, i: int, j: int, cut: int", pre, f"L.list_line_mutation({ti}, p, i, j, cut)")
            conds += [Cond(name, "prop", T, group="list_line"), Cond(name + "__twin", "twin", 40, group="list_line")]
    src += hgen.cond("list_bytes", "b0: int, b1: int, b2: int, n: int", ["0 <= n <= 3", "128 <= b0 <= 255 and 0 <= b1 <= 255 and 0 <= b2 <= 255"] + (["b2 == 128", "b1 in (0, 10, 128, 191, 255)", "b0 in (128, 191, 192, 224, 240, 255)"] if q else ["b1 % 16 == 0 and b2 % 64 == 0"]),
                     "L.list_line_bytes(b0, b1, b2, n)")
    conds += [Cond("list_bytes", "prop", T, group="list_line"), Cond("list_bytes__twin", "twin", 40, group="list_line")]
    # 3. MLSx: free Unicode (Mode S) + mutations
    src += hgen.cond("mlsx_free", "text: str", [f"len(text) <= {3 if q else 5}"], "L.mlsx_line(text)")
    # free Unicode forks on whitespace / separator / case classes per character: searched, exhausted only in the thorough tier for <= 3 characters
    conds += [Cond("mlsx_free", "search" if q else "prop", 60 if q else T, group="mlsx"), Cond("mlsx_free__twin", "twin", 40, group="mlsx")]
    for ti in range(len(L.MLSX_T)):
        name = f"mlsx_mut_{ti}"
        src += hgen.cond(name, "p: int, i: int, j: int, cut: int", ["0 <= p <= 45", f"-1 <= i < {Aq}", "-1 <= j < 2", "0 <= cut <= 2", "i >= 0 or j < 0"] + (["p % 2 == 0"] if q else []), f"L.mlsx_mutation({ti}, p, i, j, cut)")
        conds += [Cond(name, "prop", T, group="mlsx"), Cond(name + "__twin", "twin", 40, group="mlsx")]
    # 4. passive-mode answers and 257
    for kind, nm in enumerate(("pasv", "epsv", "dir257")):
        for ti in range(3 if kind < 2 else 4):
            name = f"answer_{nm}_{ti}"
            src += hgen.cond(name, "p: int, i: int, j: int, cut: int", ["0 <= p <= 42", f"-1 <= i < {Aq if q else A}", "-1 <= j < 2", "0 <= cut <= 2", "i >= 0 or j < 0"] + (["p % 3 == 0", "cut < 2", "j < 0"] if q else []),
                             f"L.passive_answer({kind}, {ti}, p, i, j, cut)")
            conds += [Cond(name, "prop", T, group="answers"), Cond(name + "__twin", "twin", 40, group="answers")]
    # 5. parse_response on arbitrary line sequences
    n = len(L.RESP_LINES)
    for a in range(n):
        name = f"response_{a:02d}"
        src += hgen.cond(name, "n: int, b: int, c: int, d: int", ["0 <= n <= " + ("3" if q else "4"), f"0 <= b < {n} and 0 <= c < {n} and 0 <= d < {n}", "n >= 2 or b == 0", "n >= 3 or c == 0", "n >= 4 or d == 0"],
                         f"L.response_lines(n, {a}, b, c, d)")
        conds += [Cond(name, "prop", T, group="parse_response"), Cond(name + "__twin", "twin", 40, group="parse_response")]
    src += hgen.cond("list_dots", "li: int, recursive: bool, as_list: bool", [f"0 <= li < {len(L.LISTINGS)}"], "L.list_dots(li, recursive, as_list)", sig="hb.KEY")
    conds += [Cond("list_dots", "prop", T, group="list"), Cond("list_dots__twin", "twin", 40, group="list")]
    # 6. server
    G = len(L.GARBAGE)
    for vi in range(len(L.VERBS)):
        if q and vi not in (0, 1, 2, 3, 4, 7, 9):
            continue
        name = f"server_{vi:02d}"
        pre = [f"-1 <= g0 < {G} and -1 <= g1 < {G} and g2 == -1", "0 <= mode <= 2", "g0 >= 0 or g1 < 0", "g1 >= 0 or g2 < 0"] + (["g1 < 0", "mode == 0 or g0 < 1", "logged or g0 < 2"] if q else ["g1 < 4", "logged or g1 < 0"])  # thorough: second byte from the first four (the full plane is 942 two-second sessions per verb)
        src += hgen.cond(name, "g0: int, g1: int, g2: int, mode: int, logged: bool", pre, f"L.server_garbage({vi}, g0, g1, g2, mode, logged)", sig="hb.KEY")
        conds += [Cond(name, "prop", T, group="server"), Cond(name + "__twin", "twin", 60, group="server")]
    src += "\nL.list_line_alpha(0, 1, 2, 3); L.list_line_mutation(0, 5, 1, 2, 1); L.list_line_bytes(255, 0, 0, 2); L.mlsx_line('a b'); L.mlsx_mutation(0, 3, 1, -1, 1); L.passive_answer(0, 0, 5, 1, -1, 1); L.passive_answer(1, 0, 5, 1, -1, 1)\nL.response_lines(2, 1, 0, 0, 0); L.list_dots(0, True, False); L.server_garbage(1, 0, 1, -1, 0, True); L.server_garbage(3, 0, -1, -1, 2, False)\n"
    S, C = aioftp.Server, aioftp.Client
    B = cli.BaseClient
    return Spec(
        pid="C19", source=src, conds=conds,
        functions_encoded=[B.parse_list_line, B.parse_list_line_unix, B.parse_list_line_windows, B.parse_unix_mode, B.parse_ls_date.__func__, B.parse_mlsx_line, B.parse_pasv_response, B.parse_epsv_response,
                           B.parse_directory_response, B.parse_response, B.parse_line, C.list, S.parse_command, S.dispatcher],
        bounds={
            "listing lines": f"every string of <= {3 if q else 4} characters over the listing alphabet {L.ALPH_L[:Aq]}; every valid unix / windows template {L.TEMPLATES} with a window of 0..3 characters at every position replaced by <= 2 alphabet characters"
                             + (" (quick: thinner window grid)" if q else "") + "; undecodable byte tails",
            "MLSx lines": f"any Unicode string of length <= {3 if q else 5} (symbolic) and mutations of {L.MLSX_T}",
            "PASV / EPSV / 257 answers": "mutations of valid answers at every position (regular expressions make symbolic text intractable: Mode A windows)",
            "parse_response": f"every sequence of <= {3 if q else 4} lines from {len(L.RESP_LINES)} line shapes (undecodable, empty, short, continuation, mismatching code ...) followed by end of stream",
            "listings": f"{len(L.LISTINGS)} hostile listings ('.' and '..', a directory nested in itself, an unparsable line, empty) x recursive x MLSD/LIST",
            "server": f"control line = one of {len(L.VERBS)} verb prefixes + <= {1 if q else 2} bytes from {L.GARBAGE} (thorough: the second one from the first four) (undecodable sequences, NUL, bare CR/LF ...), terminated, cut off by end of stream, or over-long (readline raises as StreamReader does); "
                      "session logged in or not; a second session runs USER/PWD/MLST/QUIT concurrently",
        },
        outside=["longer garbage than the bounds", "a server that never sends end-of-file or a line terminator (that is C16's timeouts)", "hostile data on the data channel during RETR (payload is opaque)", "custom list parsers supplied by the application"],
        explanation=(
            "CrossHair/z3 drive the real client parsers with class-representative garbage and with every small mutation of valid lines: parse_list_line raises nothing but the documented ValueError and otherwise "
            "returns (PurePosixPath, dict); parse_mlsx_line is total; the passive/257 parsers raise only ordinary exceptions; parse_response terminates on every line sequence with a documented exception or a "
            "well-typed reply; Client.list skips '.'/'..', ends on self-nested listings and reports an unparsable LIST line. Server: the real dispatcher gets undecodable / truncated / over-long control lines "
            "after every verb prefix: nothing escapes, that session is released (socket closed, connection table, listeners) and a concurrent session's transcript is untouched."
        ),
        assumptions=BASE_ASSUMPTIONS + ["asyncio.StreamReader.readline raises ValueError for an over-long line (modelled by the scripted reader)"],
        native=[("parsers_answer_in_bounded_time", long_run_probe(tier))],
        extra={"stubs": STUBS + ["client.get_stream replaced by scripted data streams for the listing conditions", "scripted control channels for the server conditions"]},
    )
