"""C06 - reply framing: what the server encodes is what the client decodes."""
import aioftp
from aioftp import client as cli

from .. import hgen
from ..hbase import STUBS
from ..hlib import c06 as L
from .common import BASE_ASSUMPTIONS, ROOT, Cond, Spec


def build(tier):
    q = tier == "quick"
    nl = len(L.LINES)
    nlq = 9 if q else nl
    nc = 3 if q else 5
    src = hgen.preamble("C06", tier, ROOT) + "import vlib.hlib.c06 as L\n"
    conds = []
    T = 150 if q else 900
    # round trip, partitioned by the first line (and by line count in the thorough tier)
    for i0 in range(nlq):
        name = f"roundtrip_{i0:02d}"
        params = "ci: int, lst: bool, latin: bool, n: int, i1: int, i2: int"
        pre = [f"0 <= ci < {nc}", f"1 <= n <= 3", f"0 <= i1 < {nlq} and 0 <= i2 < {nlq}", "n >= 2 or i1 == 0", "n >= 3 or i2 == 0"]
        pre.append("not latin or ci == 0")  # latin-1 only with the first code (the codec does not depend on the code)
        src += hgen.cond(name, params, pre, f"L.roundtrip(ci, lst, latin, n, {i0}, i1, i2)", sig="hb.KEY")
        conds += [Cond(name, "prop", T, group="roundtrip"), Cond(name + "__twin", "twin", 40, group="roundtrip")]
    src += hgen.cond("roundtrip_utf8", "lst: bool, n: int, k0: int, w0: int, k1: int, w1: int, tail: bool",
                     ["2 <= n <= 3", "0 <= k0 <= 3 and 1 <= w0 <= 4 and 0 <= k1 <= 3 and 1 <= w1 <= 4", "n == 3 or (k0 == 0 and w0 == 1)"] + (["not tail"] if q else []),
                     "L.roundtrip_utf8(lst, n, k0, w0, k1, w1, tail)", sig="hb.KEY")
    conds += [Cond("roundtrip_utf8", "prop", T, group="roundtrip"), Cond("roundtrip_utf8__twin", "twin", 40, group="roundtrip")]
    n = 2 if q else 3
    src += hgen.cond("roundtrip_free", "lst: bool, l0: str, l1: str",
                     [f"len(l0) <= {n} and len(l1) <= {n}", "'\\r' not in l0 + l1 and '\\n' not in l0 + l1", "l0 == l0.rstrip() and l1 == l1.rstrip()"],
                     "L.roundtrip_free(lst, l0, l1)", twin=False)
    conds.append(Cond("roundtrip_free", "search", 60 if q else 600, group="roundtrip"))
    src += hgen.cond("mismatch", "c1: int, c2: int, n_body: int, i0: int", [f"0 <= c1 < {len(L.CODES)} and 0 <= c2 < {len(L.CODES)}", "1 <= n_body <= 2", f"0 <= i0 < {4 if q else nl}"],
                     "L.mismatch(c1, c2, n_body, i0)", sig="hb.KEY")
    conds += [Cond("mismatch", "prop", T, group="mismatch"), Cond("mismatch__twin", "twin", 40, group="mismatch")]
    src += hgen.cond("mismatch_middle", "c1: int, c2: int, pos: int, n_lines: int, dash: bool", [f"0 <= c1 < {len(L.CODES)} and 0 <= c2 < {len(L.CODES)}", "1 <= pos <= 3 and 3 <= n_lines <= 5"],
                     "L.mismatch_middle(c1, c2, pos, n_lines, dash)", sig="hb.KEY")
    conds += [Cond("mismatch_middle", "prop", T, group="mismatch"), Cond("mismatch_middle__twin", "twin", 40, group="mismatch")]
    src += hgen.cond("matches", "code: str, mask: str", ["len(code) == 3 and code.isascii() and code.isdigit()", f"len(mask) <= {3 if q else 4} and mask.isascii()"],
                     "L.matches(code, mask)")
    conds += [Cond("matches", "prop", T, group="matches"), Cond("matches__twin", "twin", 40, group="matches")]
    # StatusCodeError formats codes and masks into its message, which realises symbolic strings: Mode A here; the
    # digit-for-digit rule itself is decided on fully symbolic strings by the `matches` condition above
    src += "MASKS = ['', '2', '2xx', '25x', '250', '1xx', '5', 'x5x', '33x', '226', '2x0', 'xx0']\n"
    src += hgen.cond("check_codes", "ci: int, m1i: int, m2i: int", [f"0 <= ci < {len(L.CODES)}", f"0 <= m1i < 12 and 0 <= m2i < {6 if q else 12}"],
                     "L.check_codes(L.CODES[ci], MASKS[m1i], MASKS[m2i])")
    conds += [Cond("check_codes", "prop", T + 100, group="matches"), Cond("check_codes__twin", "twin", 40, group="matches")]
    src += hgen.cond("command_loop", "n_wait: int, final_ci: int, expect_i: int", ["0 <= n_wait <= 2", f"0 <= final_ci < {len(L.CODES)}", "0 <= expect_i < 6"],
                     "L.command_loop(n_wait, final_ci, expect_i)", sig="hb.KEY")
    conds += [Cond("command_loop", "prop", T, group="command"), Cond("command_loop__twin", "twin", 40, group="command")]
    src += hgen.cond("segmentation", "k1: int, d: int, lst: bool", [f"0 <= k1 <= {L.SEG_LEN}", "d in (0, 1, 7)" if not q else "d == 1"], "L.segmentation(k1, k1 + d, lst)")
    conds += [Cond("segmentation", "prop", T + 150, group="segmentation"), Cond("segmentation__twin", "twin", 40, group="segmentation")]
    src += hgen.cond("parse_command", "up0: bool, up1: bool, up2: bool, up3: bool, arg: str, has_arg: bool",
                     [f"len(arg) <= {3 if q else 5}", "'\\r' not in arg and '\\n' not in arg and arg == arg.rstrip()"], "L.parse_command(up0, up1, up2, up3, arg, has_arg)")
    conds += [Cond("parse_command", "prop", T, group="parse_command"), Cond("parse_command__twin", "twin", 40, group="parse_command")]
    src += "\nL.roundtrip(0, True, False, 3, 1, 2, 3); L.mismatch(0, 1, 1, 1); L.matches('250', '2x'); L.check_codes('250', '2xx', '3'); L.command_loop(1, 0, 0); L.segmentation(3, 9, True); L.parse_command(True, False, True, False, 'a b', True); L.roundtrip_free(True, 'a', 'b')\n"
    S, C = aioftp.Server, aioftp.Client
    return Spec(
        pid="C06", source=src, conds=conds,
        functions_encoded=[S.write_response, S.write_line, C.parse_line, C.parse_response, C.check_codes, C.command, cli.Code.matches, S.parse_command,
                           aioftp.StreamIO.readline],
        bounds={
            "round trip": f"code in {L.CODES[:nc]}; 1..3 lines, each from the {nlq}-entry line universe {L.LINES[:nlq]} (Mode A at line level, exhaustive); single-line / multi-line / listing style; utf-8 and latin-1; a sentinel reply follows (desynchronisation check)",
            "byte boundaries": "listing-style and multi-line replies of 2..3 lines whose body and final lines are k ASCII characters (k = 0..3) followed by a character 1..4 bytes wide in UTF-8 (a, e-acute, CJK, emoji)"
                               + ("" if q else ", with and without an ASCII tail") + ": every alignment of a multi-byte character against the 3-byte code / separator boundary; sentinel reply follows",
            "free lines": f"Mode S search only: two free Unicode lines of length <= {n}",
            "mismatch": "final line with a different code from the code universe, 1..2 lines before it (rejected AND the sentinel still decodes); a middle line (position 1..3 of 3..5 lines, as continuation or as terminating line) with a different code: rejected",
            "Code.matches": f"code = any three ASCII digits (symbolic string), mask = any ASCII string of length <= {3 if q else 4} (symbolic)",
            "check_codes": "code from the code universe, two masks from a 12-entry mask universe (its exception formats the strings, which forces realisation)",
            "command loop": "0..2 wait replies, final code from the universe, 6 expected masks",
            "segmentation": "real asyncio.StreamReader, the byte stream cut into three segments: first cut symbolic over every position, middle segment of 1 byte (thorough: 0, 1 or 7 bytes)",
            "parse_command": f"16 spellings of the verb, free Unicode argument of length <= {3 if q else 5}",
        },
        outside=["line content outside the universe (free lines are searched, not exhausted: Code(s[:3]) builds a str subclass and realises the characters)",
                 "resynchronisation after a reply whose mismatching line is not its last one (the reply boundary is then undefined; rejection itself IS checked)", "non-ASCII mask characters (masks are source literals)",
                 "lines with CR/LF or trailing whitespace (the line protocol cannot carry them)"],
        explanation=(
            "CrossHair/z3 executes the real Server.write_response/write_line and Client.parse_line/parse_response/check_codes/command and Code.matches: encoded replies are "
            "fed back to the decoder (code, every info line and a following sentinel reply must come back exactly; listing style keeps the leading blank of body lines); "
            "a final line with a different code must raise StatusCodeError and leave the stream synchronised; Code.matches on a fully symbolic code/mask agrees with the "
            "digit-for-digit rule; the command() wait/expect loop; the same bytes through a real StreamReader cut at symbolic positions; parse_command's verb/argument split."
        ),
        assumptions=BASE_ASSUMPTIONS + ["asyncio.StreamReader.readline makes segmentation invisible (exercised with the real class on two symbolic cut points)"],
        extra={"stubs": STUBS + ["ListStream: list-collecting / list-fed control stream", "coroutines that never suspend are driven with send(None)"]},
    )
