"""Shared bits of the property modules."""
import os

from .. import hgen
from ..runner import ROOT, Cond, Spec  # noqa: F401

BASE_ASSUMPTIONS = [
    "CrossHair 0.0.110 models Python semantics faithfully for the executed code; z3 is sound",
    "CPython C-level code (codecs, pathlib internals reached after the intern stub, io.BytesIO) behaves as CrossHair models it",
    "environment stubs listed under coverage.stubs behave as the real environment within their documented contract",
]


def conds_with_twins(names, timeout, twin_timeout=40, group="", twins=True):
    out = []
    for n in names:
        out.append(Cond(n, "prop", timeout, group=group or n))
        if twins:
            out.append(Cond(n + "__twin", "twin", twin_timeout, group=group or n))
    return out
