"""C09 - client tree operations (upload, download, recursive list, remove) are faithful."""
import aioftp

from .. import hgen
from ..hbase import STUBS
from ..hlib import c09 as L
from .common import BASE_ASSUMPTIONS, ROOT, Cond, Spec


def build(tier):
    q = tier == "quick"
    src = hgen.preamble("C09", tier, ROOT) + "import vlib.hlib.c09 as L\n"
    conds = []
    T = 250 if q else 1500
    ns, nd = len(L.SHAPES), len(L.DESTS)
    for fn in ("upload", "download"):
        for s in range(ns):
            name = f"{fn}_shape{s}"
            pre = [f"0 <= dest_i < {nd}"] + (["dest_i < 8 or dest_i == 11"] if q else [])
            src += hgen.cond(name, "dest_i: int, write_into: bool, cwd_c: bool, legacy: bool", pre, f"L.{fn}({s}, dest_i, write_into, cwd_c, legacy)", sig="hb.KEY")
            conds += [Cond(name, "prop", T, group=fn), Cond(name + "__twin", "twin", 60, group=fn)]
    # two operations on one client session: nothing the client remembers from the first may change the second
    for v in range(3):
        name = f"history_v{v}"
        src += hgen.cond(name, "shape_i: int, dest_i: int, write_into: bool, legacy: bool", [f"0 <= shape_i < {ns}", f"0 <= dest_i < {len(L.REL_DESTS)}"] + (["dest_i < 2", "not legacy or shape_i % 2 == 0"] if q else []),
                         f"L.upload_history(shape_i, dest_i, write_into, {v}, legacy)", sig="hb.KEY")
        conds += [Cond(name, "prop", T, group="history"), Cond(name + "__twin", "twin", 60, group="history")]
    for fn in ("list_recursive", "remove"):
        name = fn
        src += hgen.cond(name, "shape_i: int, cwd_c: bool, arg_i: int, legacy: bool", [f"0 <= shape_i < {ns}", "0 <= arg_i <= 2"], f"L.{fn}(shape_i, cwd_c, arg_i, legacy)", sig="hb.KEY")
        conds += [Cond(name, "prop", T, group=fn), Cond(name + "__twin", "twin", 60, group=fn)]
    src += "\nL.upload(4, 2, True, True); L.download(5, 1, False, False); L.list_recursive(5, True, 0); L.remove(4, False, 1)\n"
    C = aioftp.Client
    return Spec(
        pid="C09", source=src, conds=conds,
        functions_encoded=[C.upload, C.download, C.list, C.remove, C.make_directory, C.exists, C.stat, C.is_file, C.is_dir, C.remove_file, C.remove_directory, C.upload_stream, C.download_stream],
        bounds={
            "trees": f"{ns} source tree shapes up to 3 levels deep (empty directory, empty file, nested directories, a single file, names with spaces, the same name on two levels, a directory containing an entry of its own name): {L.SHAPES}",
            "server kind": "the model peer answers MLST/MLSD (as aioftp's server) or, symbolic choice, is a LIST-only server (MLST/MLSD -> 502; LIST in ls -l format): the client's stat / list fallbacks run",
            "destination": f"{L.DESTS}" + (" (quick: the first 8 and 'x/foo')" if q else "") + "; write_into on/off; remote working directory / or /c",
            "histories on one client": f"upload to a relative destination from {L.REL_DESTS}, then (0) change the working directory and upload to the same relative destination, (1) remove the image under its absolute spelling and upload again, (2) download the image back: exact remote and local trees",
            "list / remove": "each shape, asked through three spellings of the path, from two working directories; a sibling tree with a common name prefix must survive remove",
        },
        outside=["trees deeper than 3 levels / more than 2 entries per directory", "a real local filesystem (the local side is MemoryPathIO; '..' in local paths excluded)", "symbolic links", "'..' inside a remote destination on a LIST-only server (stat falls back to finding '..' in a listing)",
                 "the wire level below Client.command / Client.get_stream (replaced by a model FTP peer here; C05, C06, C08 cover it)"],
        explanation=(
            "The real client methods upload, download, list(recursive), remove and everything they call (make_directory, exists, stat, is_file, is_dir, upload_stream, download_stream, remove_file, remove_directory, "
            "the AsyncLister queue) are executed by CrossHair/z3 on top of a model FTP peer that answers Client.command and Client.get_stream like aioftp's server; destination, write_into, working directory and "
            "tree shape are symbolic choices. Oracle: the documented image - destination/source-name/... by default, destination/... with write_into - with identical structure and contents and nothing else "
            "created; download mirrors it; a recursive listing returns every entry of the subtree exactly once with a path usable from the working directory; remove deletes exactly the subtree."
        ),
        assumptions=BASE_ASSUMPTIONS + ["the model peer (vlib/hlib/c09.py: Peer) answers MLST/MLSD/MKD/RMD/DELE/STOR/RETR like aioftp's server (reply codes as in the reference model of C05)"],
        extra={"stubs": STUBS + ["Client.command / Client.get_stream -> model FTP peer over a dict tree", "local side: the real MemoryPathIO"]},
    )
