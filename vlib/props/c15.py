"""C15 - speed limits bound the cumulative rate, compose, and cost nothing when off."""
import time

import aioftp
from aioftp import common as com

from .. import hgen
from .. import pysym as P
from ..hbase import STUBS
from ..hlib import c15k as K
from .common import BASE_ASSUMPTIONS, ROOT, Cond, Spec
from ..runner import innermost as U
from ..runner import HarnessError


def validate_translator():
    """the interpreter's models (sleep, concurrent join, clock) against the real classes on a virtual clock: identical I/O
    start instants for concrete schedules (the repository's own throttle vector included)"""
    import asyncio

    from .. import hbase as hb

    schedules = [
        (3, 10, [(0, 3, 0), (0, 3, 0), (0, 5, 2), (12, 4, 1), (0, 2, 0)]),
        (1, 1, [(0, 3, 0), (2, 3, 0), (0, 1, 0), (5, 2, 3)]),
        (1000, 10, [(0, 64, 0), (0, 64, 1), (11, 64, 0), (0, 1, 0)]),
    ]
    checked = 0
    for L, R, steps in schedules:
        # native: real ThrottleStreamIO over a scripted reader on VLoop (time unit = seconds)
        loop = hb.new_loop()
        starts = []

        class Rd:
            def __init__(self):
                self.i = 0

            async def read(self, count=-1):
                g, n, d = steps[self.i]
                self.i += 1
                starts.append(loop.time())
                await asyncio.sleep(d)
                return b"x" * n

        th = com.StreamThrottle(read=com.Throttle(limit=L, reset_rate=R), write=com.Throttle(limit=None))
        stream = com.ThrottleStreamIO(Rd(), hb.CollectWriter(), throttles={"t": th})

        async def run():
            for g, n, d in steps:
                await asyncio.sleep(g)
                await stream.read(8)

        loop.run_until_complete(run())
        # interpreter with the same concrete values
        import z3

        sc = K.Scenario([L], R, len(steps))
        ip = P.Interp({})
        holder = {}

        def runi(ip_):
            holder["v"] = sc.run(ip_)

        matched = False
        for pc, outcome in ip.explore(runi):
            sim, ths, marks = holder["v"]
            s = z3.Solver()
            s.add(*pc)
            s.add(*sim.cons)
            names = {str(c.arg(0)): c.arg(0) for c in sim.cons if z3.is_ge(c)}
            gi = [v for k, v in names.items() if k.startswith("gap")]
            ni = [v for k, v in names.items() if k.startswith("n")]
            di = [v for k, v in names.items() if k.startswith("dur")]
            oi = [v for k, v in names.items() if k.startswith("over")]
            for (g, n, d), gv, nv, dv in zip(steps, gi, ni, di):
                s.add(gv == g, nv == n, dv == d)
            for o in oi:
                s.add(o == 0)
            if s.check() == z3.sat:
                m = s.model()
                got = [float(m.eval(x[1], model_completion=True).as_fraction()) for x in sim.io]
                if all(abs(a - b) < 1e-9 for a, b in zip(got, starts)) and len(got) == len(starts):
                    matched = True
                else:
                    raise HarnessError(f"translator disagreement: schedule L={L} R={R}: real starts {starts} vs interpreted {got}")
        if not matched:
            raise HarnessError("translator validation: no interpreted path matches the concrete schedule")
        checked += 1
    return checked


def kernel(tier):
    def run():
        q = tier == "quick"
        t0 = time.time()
        st = {"solver_s": 0.0, "queries": 0, "unknown": 0}
        P.STATS["feasibility_checks"] = 0
        P.STATS["solver_s"] = 0.0
        violations, samples, sigs = [], [], []
        evaluations = 0
        k = 4 if q else 6
        grid = [1, 3, 1000, 8192] if q else [1, 3, 1000, 8192, 2 ** 20]
        nonrepro = []

        def add_witness(kind, limits, R, direction, x, what):
            """replay the solver's witness on the REAL classes before reporting it"""
            import json
            import os
            if not isinstance(x.get("model"), dict):
                nonrepro.append(f"{kind}: no model ({x})")
                return
            if kind == "shared":
                w = K.replay_shared(limits[0], R, x["order"], x["model"], private=(limits[1] if len(limits) > 1 else None))
            else:
                fn = K.replay_runs_ahead if kind == "ahead" else K.replay_unnecessary_delay
                w = fn(limits, R, direction, x["model"])
            if w is None:
                nonrepro.append(f"{kind} limits={limits} R={R} {direction}: witness does not reproduce natively")
                return
            spec = {"kind": kind, "limits": limits, "reset_rate": R, "direction": direction, "model": x["model"], "order": x.get("order")}
            d = os.path.join(ROOT, "replays", "C15")
            os.makedirs(d, exist_ok=True)
            path = os.path.join(d, f"{tier}_{kind}_{len(violations)}.py")
            with open(path, "w") as f:
                f.write("#!/verif/.venv/bin/python\n# z3 witness replayed on the real Throttle/ThrottleStreamIO (virtual clock). Exit 1 = reproduced.\n"
                        f"import sys, json\nsys.path.insert(0, {ROOT!r})\nfrom vlib.hlib import c15k\nsys.exit(c15k.replay_main([json.dumps({spec!r})]))\n")
            violations.append({"key": {"ahead": "kernel:runs-ahead", "shared": "kernel:shared-limit"}.get(kind, "kernel:unnecessary-delay"), "replay": path, "call": json.dumps(spec)[:300],
                               "what": f"limits={limits} reset_rate={R} {direction}: {what}; reproduced on the real classes in exact rational arithmetic (measured {float(w):.6g})"})

        nval = 0
        try:
            nval = validate_translator()
            # (a)+(d) cumulative bound for single limits and stacks (tightest governs: the bound holds for every level at once)
            stacks = [[L] for L in grid] + [[1, 3], [3, 1000], [8192, 3]] + ([] if q else [[1, 3, 1000], [1000, 3, 1]])
            for limits in stacks:
                for R in (1, 10):
                    for direction in ("read", "write"):
                        kk = k if len(limits) == 1 else (3 if q else 4)
                        v, n = K.check_scenario(K.Scenario(limits, R, kk, direction=direction), 0, st)
                        evaluations += n
                        sigs.append(f"bound:{limits}:{R}:{direction}:{'viol' if v else 'ok'}")
                        for x in v:
                            add_witness("ahead", limits, R, direction, x, f"bytes moved exceed L*(t-t0) by {x.get('excess')} at I/O {x.get('io')}")
                        # vacuity guard: the same query against half the budget must be violated
                        if len(limits) == 1 and R == 10 and direction == "read":
                            v2, _ = K.check_scenario(K.Scenario([limits[0]], R, 3), -1, st, want_witness=False)
                            if not v2:
                                return {"error": f"vacuity guard: tightened bound not violated for L={limits[0]}", "evaluations": evaluations}
                            if len(samples) < 3:
                                samples.append({"query": f"run-ahead witness demanded with allowance -1 byte, L={limits[0]}", "solver_model": v2[0].get("model")})
                        # (f) no unnecessary delay
                        v3, n3 = K.check_no_unnecessary_delay(K.Scenario(limits, R, kk, direction=direction), 0, st)
                        evaluations += n3
                        for x in v3:
                            add_witness("unnecessary-delay", limits, R, direction, x, f"I/O {x.get('io')} starts later than any limit requires")
            # (e) nothing when off / only the opposite direction limited
            for lim in (None, 0):
                for other in (None, 5):
                    for direction in ("read", "write"):
                        v, n = K.check_no_delay_when_off(lim, other, 3, st, direction)
                        evaluations += n
                        for x in v:
                            violations.append({"key": "kernel:delay-when-off", "what": str(x), "call": "None"})
            # (b) shared limit bounds the sum
            for L in ([3] if q else [1, 3, 1000]):
                v, n, no = K.check_shared(L, 10, 2, 2 if q else 3, 0, st, limit_orders=None if not q else 70)
                evaluations += n
                sigs.append(f"shared:{L}:{no}-interleavings")
                for x in v:
                    add_witness("shared", [L], 10, "read", x, f"two streams sharing the limit moved more than L*elapsed + one block each (event order {x.get('order')})")
            # (b') ... also when each stream carries a tighter limit of its own below the shared one (per-connection level under a
            # server-wide / per-user level): G < 2 P, so the shared limit binds only when both streams are active
            for G, Pl in ([(3, 2)] if q else [(3, 2), (1000, 600), (8192, 8191)]):
                v, n, no = K.check_shared(G, 10, 2, 2 if q else 3, 0, st, limit_orders=None if not q else 70, private=Pl)
                evaluations += n
                sigs.append(f"shared+private:{G}/{Pl}:{no}-interleavings")
                for x in v:
                    add_witness("shared", [G, Pl], 10, "read", x, f"two streams with private limit {Pl} sharing the limit {G} moved more than G*elapsed + one block each (event order {x.get('order')})")
            # (c) clones are independent, limit setter forgets the window
            for x in K.check_clone_independent(st) + K.check_limit_setter(st):
                violations.append({"key": "kernel:" + x["kind"], "what": str(x), "call": "None"})
        except P.Unsupported as e:
            # the interpreter met a construct it does not model: the z3 kernel decides nothing.  Fallback (sampling, stated as such):
            # concrete schedules on the real classes; a bound broken there is still a reproduced violation
            violations.clear()
            nonrepro.clear()
            nf, bad = K.fallback_sweep(grid)
            for kind, limits, R, direction, x in bad[:3]:
                add_witness(kind, limits, R, direction, x, f"fallback sweep (interpreter does not support the current source: {e}): concrete schedule breaks the {kind} bound, limits {limits}")
            seen, uniq = set(), []
            for v in violations:
                if v["key"] not in seen:
                    seen.add(v["key"])
                    uniq.append(v)
            return {"violations": uniq, "evaluations": evaluations + nf, "inconclusive": 1, "sigs": ["fallback-sweep"],
                    "summary": f"Z3 KERNEL INCONCLUSIVE: interpreter does not support the current source ({e}); fallback concrete sweep over {nf} schedules found {len(bad)} bound violations"}
        if nonrepro:
            return {"error": "; ".join(nonrepro[:3]), "evaluations": evaluations}
        # de-duplicate by key
        seen, uniq = set(), []
        for v in violations:
            if v["key"] not in seen:
                seen.add(v["key"])
                uniq.append(v)
        return {"violations": uniq, "evaluations": evaluations, "sigs": sigs, "samples": samples, "discharged": st["queries"] - st["unknown"], "inconclusive": st["unknown"],
                "solver_s": round(st["solver_s"] + P.STATS["solver_s"], 2), "queries": st["queries"],
                "summary": f"{evaluations} interpreted paths, {st['queries']} z3 queries, {P.STATS['feasibility_checks']} branch feasibility checks, {nval} translator validation schedules, {round(time.time() - t0, 1)} s"}
    return run


def build(tier):
    q = tier == "quick"
    src = hgen.preamble("C15", tier, ROOT) + "import vlib.hlib.c15w as W\n"
    conds = []
    # limit VALUES are concrete and pairwise distinct (a symbolic limit would drag float arithmetic through every throttled write);
    # what is decided here is object identity: which Throttle objects each stream carries
    src += hgen.cond("server_wiring", "relogin: bool", [], "W.server_wiring(1000001, 1000002, 1000003, 1000004, 1000005, 1000006, 1000007, 1000008, relogin)", sig="hb.KEY")
    conds += [Cond("server_wiring", "prop", 200, group="wiring"), Cond("server_wiring__twin", "twin", 60, group="wiring")]
    src += hgen.cond("client_wiring", "swap: bool", [], "W.client_wiring(1000001 if swap else 1000002, 1000002 if swap else 1000001)", sig="hb.KEY")
    conds += [Cond("client_wiring", "prop", 200, group="wiring"), Cond("client_wiring__twin", "twin", 90, group="wiring")]
    src += "\nW.server_wiring(1, 2, 3, 4, 5, 6, 7, 8, True); W.client_wiring(5, 6)\n"
    S, C = aioftp.Server, aioftp.Client
    return Spec(
        pid="C15", source=src, conds=conds,
        functions_encoded=[com.Throttle.wait, com.Throttle.append, com.Throttle.clone, com.Throttle.limit.fset, com.Throttle.__init__, com.ThrottleStreamIO.wait, com.ThrottleStreamIO.append,
                           com.ThrottleStreamIO.read, com.ThrottleStreamIO.write, com.StreamThrottle.clone, S.dispatcher, S.user, U(S.pasv), U(S.epsv), C.connect, U(C.get_stream)],
        bounds={
            "kernel (z3 over the interpreted source)": f"k = {4 if q else 6} sequential I/Os (3-4 for stacks) with symbolic chunk sizes 1..64, I/O durations >= 0, idle gaps >= 0 and oversleeps >= 0 (reals); limits from the grid "
                                                       f"{[1, 3, 1000, 8192] if q else [1, 3, 1000, 8192, 2 ** 20]}, stacks of 2" + ("" if q else "-3") + " limits, reset_rate in (1, 10), both directions; "
                                                       f"two streams sharing one limit: every interleaving of their wait/append events for 2 x {2 if q else 3} I/Os, each stream with the shared throttle alone and with a tighter private limit below it "
                                                       f"(shared/private in {[(3, 2)] if q else [(3, 2), (1000, 600), (8192, 8191)]})",
            "wiring (CrossHair)": "eight pairwise distinct limit values (server, per connection, per user, per user connection; read/write); two sessions of one user, optional re-login as another user (symbolic); client read/write limits",
        },
        outside=["more than 6 I/Os in sequence (no inductive invariant is claimed)", "IEEE-754 rounding (times and sums are reals in the solver)", "limits outside the grid (the arithmetic is linear in the limit)",
                 "real-time scheduling jitter beyond 'a sleep may oversleep'", "more than two streams sharing a limit"],
        explanation=(
            "Accounting kernel: the CURRENT source of Throttle.wait/append/clone/limit and ThrottleStreamIO.wait/append/read/write is executed by a small AST interpreter over z3 reals (models: clock, asyncio.sleep "
            "with arbitrary oversleep, asyncio.wait = concurrent join, the underlying StreamIO taking an arbitrary duration). z3 decides: (a) at every I/O start the bytes moved so far <= L x time since the first limited I/O, "
            "for every level of a stack at once (the tightest governs); (b) a limit shared by two streams bounds their sum up to one block per stream, over every interleaving; (c) clones share no memory; "
            "(e) no delay at all when the limit is None/0 or only the opposite direction is limited; (f) no I/O starts later than the latest instant some limit required plus oversleep. A tightened bound must be "
            "violated (vacuity guard) and concrete schedules are pushed through both the real classes and the interpreter (translator validation). Wiring: CrossHair runs the real dispatcher/USER/PASV/EPSV and the real "
            "client and checks which throttle objects are shared by whom, with symbolic limit values."
        ),
        assumptions=BASE_ASSUMPTIONS + ["times are mathematical reals", "asyncio.wait over the per-throttle tasks ends when the slowest sleep ends; asyncio.sleep(x) never returns early"],
        native=[("throttle_kernel_z3", kernel(tier))],
        extra={"stubs": STUBS + ["pysym models: _now, asyncio.sleep (+oversleep), asyncio.create_task, asyncio.wait (max of the joined sleeps), len(data), super().read/write (duration d >= 0), max, round/int"]},
    )
