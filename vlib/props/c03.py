"""C03 - nothing is served before a completed login; re-USER drops the old login."""
import aioftp

from .. import hgen
from ..hbase import STUBS
from ..runner import unwrap_all
from .common import BASE_ASSUMPTIONS, ROOT, Cond, Spec


def verbs():
    return sorted(aioftp.Server([aioftp.User()], path_io_factory=aioftp.MemoryPathIO).commands_mapping)


def build(tier):
    q = tier == "quick"
    npw = 3 if q else 5
    nargs = 3 if q else 9
    fix = ["not has_rename"] if q else []  # quick tier: pending-rename dimension fixed (it is C05's subject); thorough: symbolic
    src = hgen.preamble("C03", tier, ROOT) + "from vlib.hlib.c03 import *\nimport vlib.hlib.c03 as L\n"
    conds = []
    vs = verbs()
    for v in vs:
        name = f"step_{v}"
        if v in ("user", "pass"):
            params = "who: int, logged: bool, has_passive: bool, has_rename: bool, with_anon: bool, pw: str, arg: str"
            pre = ["0 <= who <= 3 and (with_anon or who != 3)", "not (logged and who == 0)", f"len(pw) <= {npw} and len(arg) <= {5 if v == 'user' else npw}",
                   "'\\r' not in arg and '\\n' not in arg and arg == arg.strip() and ' ' not in arg"] + fix + (["not has_passive"] if q else [])
            call = f"L.step({v!r}, who, logged, has_passive, has_rename, with_anon, pw, arg)"
        else:
            params = "who: int, logged: bool, has_passive: bool, has_rename: bool, with_anon: bool, ai: int"
            pre = ["0 <= who <= 3 and (with_anon or who != 3)", "not (logged and who == 0)", f"0 <= ai < {nargs}"] + fix + (["with_anon"] if q else [])
            call = f"L.step({v!r}, who, logged, has_passive, has_rename, with_anon, 'secret', L.ARGS[ai])"
        parts = [None]
        if v in ("user", "pass") or not q:
            parts = [0, 1, 2, 3]  # partition by pre-state user so that every condition is confirmable within its budget
        for part in parts:
            pname = name if part is None else f"{name}_w{part}"
            ppre = pre if part is None else pre + [f"who == {part}"]
            src += hgen.cond(pname, params, ppre, call, sig="''")
            conds.append(Cond(pname, "prop", 150 if q else 900, group=v))
            conds.append(Cond(pname + "__twin", "twin", 60, group=v))
    # concrete warm-up, results not asserted
    src += "\nfor _v in " + repr(vs) + ":\n    L.step(_v, 0, False, False, False, True, 's', 'a'); L.step(_v, 2, True, True, True, True, 's', 'a')\n"
    S = aioftp.Server
    enc = [S.dispatcher, aioftp.ConnectionConditions.__call__, aioftp.PathConditions.__call__, aioftp.PathPermissions.__call__,
           aioftp.MemoryUserManager.get_user, aioftp.MemoryUserManager.authenticate, aioftp.MemoryUserManager.notify_logout,
           S.parse_command, S.write_response, S.get_paths]
    m = S([aioftp.User()], path_io_factory=aioftp.MemoryPathIO).commands_mapping
    for v in vs:
        enc.append(unwrap_all(m[v].__func__)[-1])
    return Spec(
        pid="C03",
        source=src,
        conds=conds,
        functions_encoded=enc,
        bounds={
            "pre-state": "user in {none, admin (password P), bob (no password), anonymous}, logged (implies user set), passive listener present, "
                         "pending rename present, anonymous account configured or not - all symbolic (quick tier: no pending rename; anonymous configured except for USER/PASS where it is symbolic)",
            "verb": f"each of the {len(vs)} verbs of the live commands_mapping (one condition per verb), followed by a PWD probe",
            "argument": f"USER: free Unicode login |s|<=5; PASS: free Unicode |s|<={npw} against symbolic password P |P|<={npw}; other verbs: the first {nargs} entries of the argument universe ['', 'a', '/a/f', '..', 'I', '5', '/', 'a/f', 'zz']",
        },
        outside=["custom user managers", "more than three users", "arguments outside the universe for path verbs (paths are C02's subject)",
                 "passwords / logins longer than the bound"],
        explanation=(
            "One inductive step of the real Server.dispatcher from an arbitrary reachable session state (symbolic), per verb: CrossHair/z3 "
            "explores every path through parse_command, the ConnectionConditions/PathConditions/PathPermissions decorators, the handler and the "
            "user manager. Asserted: not logged in and verb outside {USER, PASS, QUIT, SYST, REST} => reply 503, zero calls on the spying storage "
            "backend, no listener opened, cwd / rename / type / user unchanged; a session is logged in afterwards only if it was before (and the verb is not USER), "
            "or USER named a password-less account, or PASS matched the pending user's password; USER drops the old login before anything else; "
            "the following PWD is answered 257 iff the session is logged in (the flag is what gates)."
        ),
        assumptions=BASE_ASSUMPTIONS + ["pre-state generator over-approximates the reachable session states (invariant: logged => user set)"],
        extra={"stubs": STUBS + ["asyncio.start_server (as seen from aioftp.server) -> Listeners stub returning FakeListener objects",
                                  "HookReader/CollectWriter: scripted control channel; pre-state injected into the dispatcher's own Connection before the first command",
                                  "SpyPathIO: the real MemoryPathIO with a call ledger"]},
    )
