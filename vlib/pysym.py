"""pysym: a small symbolic interpreter that executes the AST of real functions (read with inspect.getsource on every run)
over z3 terms.  Used for the two arithmetic kernels CrossHair cannot decide (throttle accounting: floats; ls-date logic:
C-level time/strptime).  Branches on symbolic conditions fork paths (feasibility by z3); library calls are *models*
registered by the harness, every one of them is listed in the evidence.

Supported: assignments, augmented assignments, attribute state on model objects, if/elif/else, chained comparisons,
and/or/not, + - * / %, unary minus, while with an unwinding bound (exceeding it is an error: unwinding assertion),
for over concrete sequences, with (context expression evaluated, body executed), try/except on modelled exceptions,
return, raise, f-strings (kept structured), calls (models, real functions - interpreted recursively -, methods and
properties of Obj instances resolved on the REAL class), await (transparent), list/tuple/dict literals of concrete shape.
Anything else raises Unsupported: the check then reports the kernel as inconclusive instead of passing silently.
"""
import ast
import builtins
import inspect
import textwrap
import time
import types

import z3


class Unsupported(Exception):
    pass


class PyRaise(Exception):
    def __init__(self, exc):
        self.exc = exc  # python exception class


class Infeasible(Exception):
    """the current path condition became unsatisfiable (after an earlier 'unknown' was over-approximated): drop the path"""


class _Return(Exception):
    def __init__(self, v):
        self.v = v


class Model:
    """base for symbolic model objects"""


class Obj(Model):
    """instance of a real class whose methods are interpreted from source; attributes live in a dict"""

    def __init__(self, cls, **attrs):
        object.__setattr__(self, "_cls", cls)
        object.__setattr__(self, "_attrs", dict(attrs))

    def __repr__(self):
        return f"Obj<{self._cls.__name__}>{self._attrs}"


def model(f):
    f._model = True
    return f


class SymText(Model):
    """concatenation of constants and symbolic parts (result of an f-string)"""

    def __init__(self, parts):
        self.parts = parts


STATS = {"feasibility_checks": 0, "solver_s": 0.0}
_SRC_CACHE = {}


def _tree(fn):
    if fn not in _SRC_CACHE:
        src = textwrap.dedent(inspect.getsource(fn))
        _SRC_CACHE[fn] = ast.parse(src).body[0]
    return _SRC_CACHE[fn]


class Interp:
    def __init__(self, models, while_bound=10, solver_timeout_ms=3000):
        self.models = models
        self.while_bound = while_bound
        self.solver_timeout_ms = solver_timeout_ms
        self.light_limit = None  # None: use the whole path condition for feasibility
        self.functions_seen = set()

    # -- path exploration -----------------------------------------------------------------------------------------
    def explore(self, run, base_pc=()):
        """run: callable(interp) executed once per path.  Yields (path_condition, outcome) with outcome ('ret', v) |
        ('raise', cls)."""
        work = [[]]
        while work:
            forced = work.pop()
            self.pc = list(base_pc)
            self.forced = forced
            self.taken = []
            self.pending = []
            try:
                out = ("ret", run(self))
            except PyRaise as e:
                out = ("raise", e.exc)
            except Infeasible:
                work.extend(self.pending)
                continue
            yield list(self.pc), out
            work.extend(self.pending)

    @staticmethod
    def _size(e, limit):
        n, stack = 0, [e]
        while stack and n <= limit:
            x = stack.pop()
            n += 1
            stack.extend(x.children())
        return n

    def _check(self, *extra):
        """branch feasibility on the LIGHT part of the path condition (small terms only): an over-approximation - it can
        only add paths, whose full condition the final queries then find unsatisfiable - that keeps feasibility checks cheap
        when the path condition carries large arithmetic terms"""
        s = z3.Solver()
        s.set("timeout", self.solver_timeout_ms)
        lim = self.light_limit
        s.add(*[c for c in self.pc if lim is None or self._size(c, lim) <= lim])
        t = time.time()
        r = s.check(*extra)
        STATS["feasibility_checks"] += 1
        STATS["solver_s"] += time.time() - t
        return r

    def truth(self, v):
        if isinstance(v, bool):
            return v
        if v is None:
            return False
        if isinstance(v, (int, float, str, list, tuple, dict)):
            return bool(v)
        if z3.is_bool(v):
            v = z3.simplify(v)
            if z3.is_true(v):
                return True
            if z3.is_false(v):
                return False
            i = len(self.taken)
            if i < len(self.forced):
                choice = self.forced[i]
            else:
                rt, rf = self._check(v), self._check(z3.Not(v))
                # unknown (feasibility timeout): treat the branch as feasible - an over-approximation that only adds paths
                # whose condition the final queries then find unsatisfiable
                can_t, can_f = rt != z3.unsat, rf != z3.unsat
                if can_t and can_f:
                    self.pending.append(self.taken + [False])
                    choice = True
                elif not can_t and not can_f:
                    raise Infeasible()
                else:
                    choice = can_t
            self.taken.append(choice)
            self.pc.append(v if choice else z3.Not(v))
            return choice
        if z3.is_expr(v) and (z3.is_int(v) or z3.is_real(v)):
            return self.truth(v != 0)
        if isinstance(v, Model):
            return True
        raise Unsupported(f"truth of {type(v).__name__}")

    # -- functions ------------------------------------------------------------------------------------------------
    def call_function(self, fn, args, kwargs, force=False):
        if isinstance(fn, (classmethod, staticmethod)):
            fn = fn.__func__
        fn = inspect.unwrap(fn) if not hasattr(fn, "__code__") else fn
        self.functions_seen.add(fn)
        tree = _tree(fn)
        if isinstance(tree, ast.AsyncFunctionDef) and not force:
            return Coro(fn, list(args), dict(kwargs))  # coroutines run when awaited
        g = {"__globals__": fn.__globals__}
        names = [a.arg for a in tree.args.args]
        env = dict(zip(names, args))
        for a, d in zip(reversed(tree.args.args), reversed(tree.args.defaults)):
            if a.arg not in env and a.arg not in kwargs:
                env[a.arg] = self.expr(d, g)
        for a, d in zip(tree.args.kwonlyargs, tree.args.kw_defaults):
            if a.arg in kwargs:
                env[a.arg] = kwargs[a.arg]
            elif d is not None:
                env[a.arg] = self.expr(d, g)
        for k, v in kwargs.items():
            env[k] = v
        env["__globals__"] = fn.__globals__
        try:
            self.block(tree.body, env)
        except _Return as r:
            return r.v
        return None

    def instantiate(self, cls, *args, **kwargs):
        o = Obj(cls)
        init = cls.__dict__.get("__init__")
        if init is not None:
            self.call_function(init, [o] + list(args), kwargs)
        return o

    # -- statements -----------------------------------------------------------------------------------------------
    def block(self, stmts, env):
        for s in stmts:
            self.stmt(s, env)

    def stmt(self, s, env):
        if isinstance(s, ast.Expr):
            self.expr(s.value, env)
        elif isinstance(s, ast.Assign):
            v = self.expr(s.value, env)
            for t in s.targets:
                self.assign(t, v, env)
        elif isinstance(s, ast.AugAssign):
            self.assign(s.target, self.binop(s.op, self.expr(s.target, env), self.expr(s.value, env)), env)
        elif isinstance(s, ast.If):
            self.block(s.body if self.truth(self.expr(s.test, env)) else s.orelse, env)
        elif isinstance(s, ast.While):
            n = 0
            while self.truth(self.expr(s.test, env)):
                n += 1
                if n > self.while_bound:
                    raise Unsupported("unwinding bound exceeded")  # unwinding assertion
                self.block(s.body, env)
        elif isinstance(s, ast.For):
            it = self.expr(s.iter, env)
            if not isinstance(it, (list, tuple)):
                it = list(it)
            for x in it:
                self.assign(s.target, x, env)
                self.block(s.body, env)
        elif isinstance(s, (ast.With, ast.AsyncWith)):
            for item in s.items:
                self.expr(item.context_expr, env)
            self.block(s.body, env)
        elif isinstance(s, ast.Try):
            try:
                self.block(s.body, env)
            except PyRaise as e:
                for h in s.handlers:
                    hc = self.expr(h.type, env) if h.type is not None else BaseException
                    hcs = hc if isinstance(hc, tuple) else (hc,)
                    if any(issubclass(e.exc, c) for c in hcs):
                        self.block(h.body, env)
                        break
                else:
                    raise
        elif isinstance(s, ast.Return):
            raise _Return(self.expr(s.value, env) if s.value else None)
        elif isinstance(s, ast.Raise):
            exc = self.expr(s.exc, env)
            raise PyRaise(exc if isinstance(exc, type) else type(exc))
        elif isinstance(s, ast.Pass):
            pass
        else:
            raise Unsupported(type(s).__name__)

    def assign(self, t, v, env):
        if isinstance(t, ast.Name):
            env[t.id] = v
        elif isinstance(t, ast.Attribute):
            base = self.expr(t.value, env)
            if isinstance(base, Obj):
                base._attrs[t.attr] = v
            else:
                setattr(base, t.attr, v)
        else:
            raise Unsupported("assign target")

    # -- expressions ----------------------------------------------------------------------------------------------
    @staticmethod
    def _num(a):
        return z3.ToReal(a) if z3.is_expr(a) and z3.is_int(a) else a

    def binop(self, op, a, b):
        if isinstance(a, Model) or isinstance(b, Model):
            name = {ast.Sub: "__sub__", ast.Add: "__add__"}.get(type(op))
            if name is None or not hasattr(a, name):
                raise Unsupported("operator on model object")
            return getattr(a, name)(self, b)
        if isinstance(op, ast.Add):
            return a + b
        if isinstance(op, ast.Sub):
            return a - b
        if isinstance(op, ast.Mult):
            return a * b
        if isinstance(op, ast.Mod):
            return a % b
        if isinstance(op, ast.Div):
            if not z3.is_expr(a) and not z3.is_expr(b):
                return a / b
            if isinstance(b, (int, float)) and not z3.is_expr(b):
                b = z3.RealVal(b)
            if isinstance(a, (int, float)) and not z3.is_expr(a):
                a = z3.RealVal(a)
            return self._num(a) / self._num(b)
        if isinstance(op, ast.FloorDiv):
            if z3.is_expr(a) or z3.is_expr(b):
                raise Unsupported("floor division on symbolic values")
            return a // b
        raise Unsupported(type(op).__name__)

    def cmp(self, op, a, b):
        if isinstance(op, (ast.Is, ast.IsNot)):
            r = a is b
            if (z3.is_expr(a) or isinstance(a, Model)) and b is None:
                r = False
            return r if isinstance(op, ast.Is) else not r
        if isinstance(op, (ast.In, ast.NotIn)):
            r = a in b
            return r if isinstance(op, ast.In) else not r
        return {
            ast.Gt: lambda: a > b, ast.GtE: lambda: a >= b, ast.Lt: lambda: a < b, ast.LtE: lambda: a <= b,
            ast.Eq: lambda: a == b, ast.NotEq: lambda: a != b,
        }[type(op)]()

    def getattr_(self, base, attr):
        key = (getattr(base, "__name__", None) or type(base).__name__) + "." + attr
        if isinstance(base, (types.ModuleType, type, types.SimpleNamespace)):
            if key in self.models:
                return self.models[key]
            if isinstance(base, types.SimpleNamespace):  # a stubbed 'time' / 'datetime' namespace has no __name__
                for alt in ("time." + attr, "datetime." + attr):
                    if alt in self.models:
                        return self.models[alt]
        if isinstance(base, Obj):
            if attr in base._attrs:
                return base._attrs[attr]
            for klass in base._cls.__mro__:
                if attr in klass.__dict__:
                    member = klass.__dict__[attr]
                    if isinstance(member, property):
                        return self.call_function(member.fget, [base], {})
                    if isinstance(member, types.FunctionType):
                        return _Bound(base, member)
                    return member
            raise PyRaise(AttributeError)
        return getattr(base, attr)

    def expr(self, e, env):
        if isinstance(e, ast.Constant):
            return e.value
        if isinstance(e, ast.Name):
            if e.id in env:
                return env[e.id]
            if e.id in self.models:
                return self.models[e.id]
            g = env["__globals__"]
            if e.id in g:
                return g[e.id]
            if hasattr(builtins, e.id):
                return getattr(builtins, e.id)
            raise Unsupported("name " + e.id)
        if isinstance(e, ast.Attribute):
            return self.getattr_(self.expr(e.value, env), e.attr)
        if isinstance(e, ast.BinOp):
            return self.binop(e.op, self.expr(e.left, env), self.expr(e.right, env))
        if isinstance(e, ast.UnaryOp):
            if isinstance(e.op, ast.Not):
                return not self.truth(self.expr(e.operand, env))
            if isinstance(e.op, ast.USub):
                return -self.expr(e.operand, env)
            raise Unsupported("unary op")
        if isinstance(e, ast.BoolOp):
            if isinstance(e.op, ast.And):
                for v in e.values:
                    if not self.truth(self.expr(v, env)):
                        return False
                return True
            for v in e.values:
                if self.truth(self.expr(v, env)):
                    return True
            return False
        if isinstance(e, ast.Compare):
            left = self.expr(e.left, env)
            for op, r in zip(e.ops, e.comparators):
                right = self.expr(r, env)
                if not self.truth(self.cmp(op, left, right)):
                    return False
                left = right
            return True
        if isinstance(e, ast.IfExp):
            return self.expr(e.body if self.truth(self.expr(e.test, env)) else e.orelse, env)
        if isinstance(e, ast.JoinedStr):
            parts = []
            for v in e.values:
                parts.append(v.value if isinstance(v, ast.Constant) else self.expr(v.value, env))
            return SymText(parts)
        if isinstance(e, ast.Await):
            v = self.expr(e.value, env)
            while isinstance(v, Coro):
                v = v.run(self)
            return v
        if isinstance(e, ast.List):
            return [self.expr(x, env) for x in e.elts]
        if isinstance(e, ast.Tuple):
            return tuple(self.expr(x, env) for x in e.elts)
        if isinstance(e, ast.Dict):
            return {self.expr(k, env): self.expr(v, env) for k, v in zip(e.keys, e.values)}
        if isinstance(e, (ast.ListComp, ast.GeneratorExp, ast.SetComp)):
            out = []
            self._comprehension(e.elt, e.generators, 0, dict(env), out)
            return out  # evaluated eagerly, in iteration order (a set comprehension keeps the order of first appearance)
        if isinstance(e, ast.Lambda):
            return _Lambda(e, env)
        if isinstance(e, ast.Subscript) and not isinstance(e.slice, ast.Slice):
            base, idx = self.expr(e.value, env), self.expr(e.slice, env)
            if isinstance(base, (list, tuple, dict)) and not z3.is_expr(idx):
                return base[idx]
            raise Unsupported("subscript")
        if isinstance(e, ast.Call):
            f = self.expr(e.func, env)
            args = [self.expr(a, env) for a in e.args]
            kwargs = {k.arg: self.expr(k.value, env) for k in e.keywords}
            return self.call(f, args, kwargs)
        raise Unsupported(type(e).__name__)

    def _comprehension(self, elt, gens, gi, env, out):
        if gi == len(gens):
            out.append(self.expr(elt, env))
            return
        g = gens[gi]
        if g.is_async:
            raise Unsupported("async comprehension")
        it = self.expr(g.iter, env)
        if not isinstance(it, (list, tuple)):
            it = list(it)
        for x in it:
            self.assign(g.target, x, env)
            if all(self.truth(self.expr(c, env)) for c in g.ifs):
                self._comprehension(elt, gens, gi + 1, env, out)

    def call(self, f, args, kwargs):
        if isinstance(f, _Lambda):
            a = f.node.args
            if kwargs or a.vararg or a.kwarg or a.kwonlyargs or len(args) > len(a.args):
                raise Unsupported("lambda call shape")
            env = dict(f.env)
            defaults = [None] * (len(a.args) - len(a.defaults)) + list(a.defaults)
            for i, (arg, d) in enumerate(zip(a.args, defaults)):
                if i < len(args):
                    env[arg.arg] = args[i]
                elif d is not None:
                    env[arg.arg] = self.expr(d, f.env)
                else:
                    raise Unsupported("lambda call shape")
            return self.expr(f.node.body, env)
        if getattr(f, "_model", False):
            try:
                return f(self, *args, **kwargs)
            except TypeError as e:
                raise Unsupported(f"model {getattr(f, '__name__', f)!r} called in an unsupported way: {e}")
        if isinstance(f, _Bound):
            return self.call_function(f.fn, [f.obj] + args, kwargs)
        if isinstance(f, types.MethodType) and getattr(f.__func__, "_model", False):
            return f(self, *args, **kwargs)
        if isinstance(f, types.MethodType) and isinstance(f.__self__, type):
            return self.call_function(f.__func__, [f.__self__] + args, kwargs)
        if isinstance(f, types.BuiltinMethodType) and isinstance(getattr(f, "__self__", None), (list, dict)):
            return f(*args, **kwargs)  # list.append / dict.values on concrete containers
        if f is getattr:
            return self.getattr_(args[0], args[1])
        if isinstance(f, type) and f.__module__.startswith("aioftp"):
            return self.instantiate(f, *args, **kwargs)
        if isinstance(f, types.FunctionType):
            return self.call_function(f, args, kwargs)
        raise Unsupported(f"call {f!r}")


class _Bound:
    def __init__(self, obj, fn):
        self.obj, self.fn = obj, fn


class _Lambda:
    def __init__(self, node, env):
        self.node, self.env = node, env


class Coro(Model):
    """an `async def` call that has not been awaited yet: executed when awaited / when its task is joined"""

    def __init__(self, fn, args, kwargs):
        self.fn, self.args, self.kwargs = fn, args, kwargs

    def run(self, ip):
        return ip.call_function(self.fn, self.args, self.kwargs, force=True)


# -------------------------------------------------------------------------------------------------------------------
# generic numeric models
def _extreme(ip, args, key, default, want_max):
    """min()/max() of Python: first extreme element in iteration order; comparisons of symbolic keys fork the path"""
    items = list(args[0]) if len(args) == 1 else list(args)
    if not items:
        if default is _NODEFAULT:
            raise PyRaise(ValueError)
        return default
    best = items[0]
    kb = ip.call(key, [best], {}) if key is not None else best
    for x in items[1:]:
        kx = ip.call(key, [x], {}) if key is not None else x
        better = ip.truth(ip.cmp(ast.Gt() if want_max else ast.Lt(), kx, kb))
        if better:
            best, kb = x, kx
    return best


_NODEFAULT = object()


@model
def m_max(ip, *args, key=None, default=_NODEFAULT):
    if len(args) == 2 and key is None:
        a, b = args
        if not z3.is_expr(a) and not z3.is_expr(b):
            return max(a, b)
        a2 = z3.RealVal(a) if not z3.is_expr(a) else Interp._num(a)
        b2 = z3.RealVal(b) if not z3.is_expr(b) else Interp._num(b)
        return z3.If(a2 >= b2, a2, b2)
    return _extreme(ip, args, key, default, True)


@model
def m_min(ip, *args, key=None, default=_NODEFAULT):
    if len(args) == 2 and key is None:
        a, b = args
        if not z3.is_expr(a) and not z3.is_expr(b):
            return min(a, b)
        a2 = z3.RealVal(a) if not z3.is_expr(a) else Interp._num(a)
        b2 = z3.RealVal(b) if not z3.is_expr(b) else Interp._num(b)
        return z3.If(a2 <= b2, a2, b2)
    return _extreme(ip, args, key, default, False)


def z_round_half_even(x):
    """Python's round() on a real: nearest integer, ties to even (exact)"""
    f = z3.ToInt(x)
    frac = x - z3.ToReal(f)
    half = z3.RealVal("1/2")
    return z3.If(frac < half, f, z3.If(frac > half, f + 1, z3.If(f % 2 == 0, f, f + 1)))


@model
def m_round(ip, x):
    if not z3.is_expr(x):
        return round(x)
    return z_round_half_even(Interp._num(x))


@model
def m_int(ip, x):
    """int() of a non-negative real: truncation == floor"""
    if not z3.is_expr(x):
        return int(x)
    return z3.ToInt(Interp._num(x))


@model
def m_floor(ip, x):
    if not z3.is_expr(x):
        import math

        return math.floor(x)
    return z3.ToInt(Interp._num(x))
