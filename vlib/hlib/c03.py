"""C03 harness library: nothing before login; re-USER drops the login (one real-dispatcher step from a symbolic pre-state)."""
import aioftp

from .. import hbase as hb
from .. import step as st

LS = st.install_listeners()

ARGS = ["", "a", "/a/f", "..", "I", "5", "/", "a/f", "zz"]
# the five verbs that neither read nor change the tree / working directory nor open a data channel
FREE = ("user", "pass", "quit", "syst", "rest")
TREE = {"/srv": "dir", "/srv/a": "dir", "/srv/a/f": b"hello", "/srv/zz": b""}


def users_for(with_anon, pw):
    us = [aioftp.User("admin", pw, base_path="/srv"), aioftp.User("bob", None, base_path="/srv")]
    if with_anon:
        us.append(aioftp.User(base_path="/srv"))
    return us


def step(verb, who, logged, has_passive, has_rename, with_anon, pw, arg):
    """-> True iff the C03 oracle holds for this step.  who: 0 none, 1 admin, 2 bob, 3 anonymous."""
    hb.KEY = ""
    us = users_for(with_anon, pw)
    server = st.make_server(us)
    st.build_tree(server, TREE)
    LS.started.clear()
    pre = dict(user=us[who - 1] if who else None, logged=logged, cwd="/", passive=has_passive,
               rename_from="/a" if has_rename else None)
    calls0 = []

    def mark(res):
        calls0.append((hb.SpyPathIO.calls, len(LS.started)))

    hb.SpyPathIO.reset()
    line = verb.upper() + ((" " + arg) if arg != "" else "")
    res = st.dispatcher_session(server, pre, [line, "PWD"], listeners=LS, hooks={0: mark, 1: mark})
    head, per = st.per_command_replies(res)
    if len(res.states) < 2:
        # the server ended the session during this command: legitimate only after QUIT or a reply that announces it
        r_cmd = [c for c, _, _ in per[0]] if per else []
        hb.path_done("c03_" + verb, "ended:" + ",".join(r_cmd))
        okend = res.raised is None and (verb == "quit" or (logged and r_cmd and r_cmd[-1] in ("421", "522", "503")))
        if not okend:
            hb.KEY = "session-ended"
        return okend
    s0, s1 = res.states[0], res.states[1]
    r_cmd = [c for c, _, _ in per[0]]
    r_pwd = [c for c, _, _ in per[1]] if len(per) > 1 else []
    backend_calls = calls0[1][0] - calls0[0][0] if len(calls0) > 1 else None
    listeners = calls0[1][1] - calls0[0][1] if len(calls0) > 1 else None
    hb.path_done("c03_" + verb, ",".join(r_cmd))
    if res.raised is not None:
        hb.KEY = "dispatcher-raised"
        return False
    if len(r_cmd) < 1:
        hb.KEY = "no-reply"
        return False
    ok = True
    # (1) gate: not logged in and verb not in FREE -> 503, backend untouched, nothing opened, state unchanged
    if not logged and verb not in FREE:
        ok = ok and r_cmd == ["503"] and backend_calls == 0 and listeners == 0
        ok = ok and s1["logged"] is False and s1["cwd"] == s0["cwd"] and s1["rename_from"] == s0["rename_from"]
        ok = ok and s1["type"] == s0["type"] and s1["passive"] == s0["passive"] and s1["data"] == s0["data"] and s1["user"] == s0["user"]
        if not ok:
            hb.KEY = "gate"
    # (2) how a session may become / stay logged in
    if s1["logged"]:
        if verb == "user":
            named = next((u for u in us if u.login == arg), None) or next((u for u in us if u.login is None), None)
            ok2 = named is not None and named.password is None and s1["user"] == (named.login or "anonymous")
        elif verb == "pass":
            ok2 = (logged and s1["user"] == s0["user"]) or (who != 0 and us[who - 1].password == arg and s1["user"] == s0["user"])
        else:
            ok2 = logged and s1["user"] == s0["user"]
        if not ok2:
            hb.KEY = hb.KEY or "authorised-without-login"
        ok = ok and ok2
    # (3) USER always drops the old login first
    if verb == "user" and logged:
        named = next((u for u in us if u.login == arg), None) or next((u for u in us if u.login is None), None)
        if named is None or named.password is not None:
            if s1["logged"]:
                hb.KEY = hb.KEY or "re-user-keeps-login"
            ok = ok and not s1["logged"]
    # (4) the flag is what gates the next command: PWD answers 257 iff logged, else 503, and FREE verbs never touch the backend
    ok = ok and r_pwd == (["257"] if s1["logged"] else ["503"])
    if verb in ("quit", "syst", "rest", "pass", "user"):
        ok = ok and backend_calls == 0 and listeners == 0
    if not ok and not hb.KEY:
        hb.KEY = "oracle"
    return ok
