"""C01 harness library: transferred bytes are exact (STOR / APPE / RETR, whole or from a restart offset)."""
import asyncio
import pathlib

import aioftp

from .. import hbase as hb
from .. import step as st

LS = st.install_listeners()
PATTERN = bytes(range(65, 65 + 8))  # all-distinct payload bytes: exposes reordering, duplication, loss
OLD = bytes(range(97, 97 + 6))  # all-distinct old content


def expected_store(verb, old, off, payload):
    """POSIX semantics (pwrite at the offset / O_APPEND / O_TRUNC); old is None if the file does not exist"""
    base = old or b""
    if off:
        if not payload:
            return base if old is not None else b""
        return base.ljust(off, b"\0")[:off] + payload + base[off + len(payload):]
    if verb == "appe":
        return base + payload
    return payload


def transfer(verb, n, bs, off, oldlen, c1, x1, x2, payload=None, old=None, lat=0):
    """one STOR/APPE/RETR through the real dispatcher.  n: payload length, bs: server block size, off: restart offset
    (0 = none), oldlen: -1 = file absent else length of the old content, c1: network segmentation point of the upload,
    x1/x2: sizes of the first two short reads the data socket returns"""
    hb.KEY = ""
    n, bs, off, oldlen = hb.conc(n, 0, 8), hb.conc(bs, 1, 4), hb.conc(off, 0, 9), hb.conc(oldlen, -1, 6)
    c1, x1, x2 = hb.conc(c1, 0, 8), hb.conc(x1, 1, 9), hb.conc(x2, 1, 9)
    user = aioftp.User("bob", None, base_path="/srv")
    server = st.make_server([user], block_size=bs)
    if payload is None:
        payload = PATTERN[:n]
    if old is None:
        old = None if oldlen < 0 else OLD[:oldlen]
    tree = {"/srv": "dir", "/srv/d": "dir"}
    if old is not None:
        tree["/srv/d/f"] = old
    st.build_tree(server, tree)
    LS.started.clear()
    if verb == "retr":
        items = []
    else:
        items = [b for b in (payload[:c1], payload[c1:]) if b]
    pre = dict(user=user, logged=True, cwd="/d", passive=True, data=(items, [x1, x2]))
    lines = ([f"REST {off}"] if off else []) + [verb.upper() + " f", "MLST f"]
    hb.SpyPathIO.reset(latency=lat)  # lat > 0: every backend call suspends for `lat` virtual ms (an executor / network backend)
    res = st.dispatcher_session(server, pre, lines, listeners=LS)
    hb.SpyPathIO.latency = 0
    head, per = st.per_command_replies(res)
    k = 1 if off else 0
    codes = [c for c, sep, _ in per[k] if sep == " "] if len(per) > k else []
    after = st.tree_paths(server).get("/srv/d/f")
    hb.path_done("c01_" + verb, ",".join(codes))
    if res.raised is not None or len(res.states) < len(lines) + 1:
        hb.KEY = "session-ended"
        return False
    if hb.SpyPathIO.open_files() != 0:
        hb.KEY = "file-left-open"
        return False
    dw = res.data_writer
    if verb == "retr":
        if old is None:
            return codes == ["550"]
        if codes != ["150", "226"]:
            hb.KEY = "replies"
            return False
        if dw.data() != old[off:] or not dw.closed:
            hb.KEY = "retr-bytes"
            return False
        if after != old:
            hb.KEY = "retr-changed-file"
            return False
        return True
    if off and old is None:
        # restarting an upload of a file that does not exist: a storage error on every backend ("r+b" does not create),
        # answered 451 with nothing created
        if codes != ["150", "451"] or after is not None or not dw.closed:
            hb.KEY = "restart-of-missing-file"
            return False
        return True
    if codes != ["150", "226"]:
        hb.KEY = "replies"
        return False
    want = expected_store(verb, old, off, payload)
    if after != want:
        hb.KEY = "stored-bytes"
        return False
    if not dw.closed:
        hb.KEY = "data-not-closed"
        return False
    # the completion reply must not be on the wire before the stored file is closed (its buffered tail flushed)
    t226 = [t for ch, t in zip(res.writer.chunks, res.writer.times) if ch.startswith(b"226")]
    if not t226 or not hb.SpyPathIO.close_done or any(t is None or t > t226[0] for t in hb.SpyPathIO.close_done[:1]):
        hb.KEY = "226-before-file-closed"
        return False
    # once the completion reply was queued, a stat on the session reflects exactly the new content: MLST Size
    mlst = per[k + 1] if len(per) > k + 1 else []
    size_ok = any(("Size=%d;" % len(want)) in text for _, _, text in mlst) or any(("Size=%d;" % len(want)) in (c + s + text) for c, s, text in mlst)
    if not size_ok:
        hb.KEY = "stat-after-226"
        return False
    return True


def transfer_slow(verb, n, off, oldlen, lat):
    """the same transfer on a backend whose calls suspend (lat virtual ms each), as AsyncPathIO's do"""
    lat = hb.conc(lat, 1, 3)
    return transfer(verb, n, 2, off, oldlen, 1, 2, 3, lat=lat)


def cross_session(variant, n, lat):
    """session A downloads f; session B replaces f (variant 0: DELE + STOR, 1: STOR tmp + DELE + RNFR/RNTO, 2: STOR over it,
    3: APPE) and has its completion reply; A downloads f again and asks MLST: A sees exactly the new content"""
    hb.KEY = ""
    variant, n, lat = hb.conc(variant, 0, 3), hb.conc(n, 0, 5), hb.conc(lat, 0, 2)
    user = aioftp.User("bob", None, base_path="/srv")
    server = st.make_server([user], block_size=2)
    old = OLD[:4]
    new = PATTERN[:n]
    st.build_tree(server, {"/srv": "dir", "/srv/d": "dir", "/srv/d/f": old})
    LS.started.clear()
    LS.fail = None
    hb.SpyPathIO.reset(latency=lat)
    loop = hb.new_loop()
    wa, wb = hb.CollectWriter(), hb.CollectWriter()
    datas = {}

    def conn_of(writer):
        for key, c in server.connections.items():
            if key.writer is writer:
                return c
        return None

    def login(writer):
        def f():
            st.inject(server, conn_of(writer), dict(user=user, logged=True, cwd="/d"), LS)
        return f

    def connect(name, writer, payload):
        def f():
            mine = conn_of(writer).passive_server
            live = [(p, cb, l) for p, cb, l in LS.started if l is mine]
            dr, dw = hb.ScriptReader([(1, payload)] if payload else [], eof=True), hb.CollectWriter()
            datas[name] = dw
            asyncio.ensure_future(live[-1][1](dr, dw))
        return f

    L = st.Line  # (NOOP is not implemented by the server: 502; it only serves as a carrier for the hooks)
    ra = st.HookReader([(10, L("NOOP\r\n"), login(wa)), (10, L("PASV\r\n"), None), (10, L("RETR f\r\n"), connect("a1", wa, b"")),
                        (400, L("PASV\r\n"), None), (10, L("RETR f\r\n"), connect("a2", wa, b"")), (100, L("MLST f\r\n"), None), (100, L("NOOP\r\n"), None)], eof=True)
    if variant == 0:
        b_lines = [(100, "DELE f", None), (20, "PASV", None), (10, "STOR f", ("b", new))]
    elif variant == 1:
        b_lines = [(100, "PASV", None), (10, "STOR tmp", ("b", new)), (60, "DELE f", None), (20, "RNFR tmp", None), (20, "RNTO f", None)]
    elif variant == 2:
        b_lines = [(100, "PASV", None), (10, "STOR f", ("b", new))]
    else:
        b_lines = [(100, "PASV", None), (10, "APPE f", ("b", new))]
    items = [(12, L("NOOP\r\n"), login(wb))]
    for gap, text, dc in b_lines:
        items.append((gap, L(text + "\r\n"), connect(dc[0], wb, dc[1]) if dc else None))
    rb = st.HookReader(items + [(100, L("NOOP\r\n"), None)], eof=True)
    ra.final_gap = rb.final_gap = 10

    async def both():
        await asyncio.gather(server.dispatcher(ra, wa), server.dispatcher(rb, wb))

    try:
        loop.run_until_complete(both())
    finally:
        hb.SpyPathIO.latency = 0
    want = (old + new) if variant == 3 else new
    ca = [c for c, sep, _ in hb.reply_codes(wa) if sep == " "]
    cb = [c for c, sep, _ in hb.reply_codes(wb) if sep == " "]
    hb.path_done("c01_cross", ",".join(ca) + "|" + ",".join(cb))
    want_b = {0: ["220", "502", "250", "227", "150", "226", "502"], 1: ["220", "502", "227", "150", "226", "250", "350", "250", "502"],
              2: ["220", "502", "227", "150", "226", "502"], 3: ["220", "502", "227", "150", "226", "502"]}[variant]
    if cb != want_b or ca != ["220", "502", "227", "150", "226", "227", "150", "226", "250", "502"]:
        hb.KEY = "cross-replies"
        return False
    if datas["a1"].data() != old:
        hb.KEY = "cross-first-download"
        return False
    if datas["a2"].data() != want:
        hb.KEY = "cross-stale-download"
        return False
    if not any(("Size=%d;" % len(want)) in (c + s + t) for c, s, t in hb.reply_codes(wa)):
        hb.KEY = "cross-stale-stat"
        return False
    if st.tree_paths(server).get("/srv/d/f") != want or (variant == 1 and "/srv/d/tmp" in st.tree_paths(server)):
        hb.KEY = "cross-tree"
        return False
    return True


SPECIAL = [0, 10, 13, 255, 65, 26, 32, 127]  # NUL, LF, CR, IAC, 'A', SUB/EOF, space, DEL


def data_independent(verb, i0, i1, bs):
    """two payload / content bytes over the byte values a text-mode or telnet-aware transfer would mangle (Mode A:
    io.BytesIO is C code, symbolic bytes are realised there, so byte values cannot stay symbolic)"""
    b0, b1 = SPECIAL[hb.conc(i0, 0, 7)], SPECIAL[hb.conc(i1, 0, 7)]
    if verb == "retr":
        return transfer("retr", 0, bs, 0, 2, 0, 9, 9, old=bytes([b0, b1]))
    return transfer(verb, 2, bs, 0, 1, 1, 9, 9, payload=bytes([b0, b1]))


# ---------------------------------------------------------------------------------------------------------------
# client side, end to end over the simulated network
def e2e(kind, n, bs_srv, bs_cli, off, oldlen, seg):
    """real Client against the real Server over SimNet: upload_stream / append_stream / download_stream with offset"""
    from .. import simnet
    from aioftp import client as cli
    from aioftp import server as srv

    hb.KEY = ""
    n, bs_srv, bs_cli, off = hb.conc(n, 0, 8), hb.conc(bs_srv, 1, 4), hb.conc(bs_cli, 1, 4), hb.conc(off, 0, 9)
    oldlen, seg = hb.conc(oldlen, -1, 6), hb.conc(seg, 0, 4)
    loop = hb.new_loop()

    sent = {}

    def segment(tr, data):
        # the network splits every write into pieces of `seg` bytes; on data connections successive pieces arrive
        # 3 virtual ms apart (seg >= 1), so that the reader sees the stream in instalments, not in one piece
        if tr.local[1] == 21 or tr.remote[1] == 21:
            return [(data, 1)]  # control channel: whole lines, 1 ms (reply framing under segmentation is C06's subject)
        base = 1
        if seg >= 1:
            sent[id(tr)] = sent.get(id(tr), 0) + 1
            base = 1 + 3 * sent[id(tr)]
        if seg <= 0 or len(data) <= seg:
            return [(data, base)]
        return [(data[i:i + seg], base + 3 * i) for i in range(0, len(data), seg)]

    net = simnet.SimNet(seg=segment)
    srv.asyncio = st._AsyncioProxy(net)
    cli.open_connection = net.open_connection
    user = aioftp.User("bob", None, base_path="/srv")
    server = aioftp.Server([user], path_io_factory=hb.SpyPathIO, block_size=bs_srv)
    old = None if oldlen < 0 else OLD[:oldlen]
    payload = PATTERN[:n]
    flags = {}

    async def run():
        await server.start("10.0.0.1", 21)
        tree = {"/srv": "dir"}
        if old is not None:
            tree["/srv/f"] = old
        st.build_tree(server, tree)
        c = aioftp.Client(path_io_factory=aioftp.MemoryPathIO)
        await c.connect("10.0.0.1", 21)
        await c.login("bob", "x")
        got = None
        if kind == "download":
            got = b""
            async with c.download_stream("f", offset=off) as s:
                async for block in s.iter_by_block(bs_cli):
                    got += block
        elif kind == "download_read":
            # the other two ways a caller drains a data stream: read() to end of stream, and read(n) until b""
            async with c.download_stream("f", offset=off) as s:
                if bs_cli == 1:
                    got = await s.read()
                else:
                    got = b""
                    while True:
                        block = await s.read(bs_cli + 5)
                        if not block:
                            break
                        got += block
        else:
            factory = c.upload_stream if kind == "upload" else c.append_stream
            try:
                async with factory("f", offset=off) as s:
                    for i in range(0, len(payload), bs_cli):
                        await s.write(payload[i:i + bs_cli])
            except aioftp.StatusCodeError as e:
                flags["failed"] = str(e.received_codes[-1])
        # a later download on the same session reflects exactly the stored content
        back = b""
        if "failed" not in flags:
            async with c.download_stream("f") as s:
                async for block in s.iter_by_block(3):
                    back += block
        await c.quit()
        await server.close()
        return got, back

    try:
        got, back = loop.run_until_complete(run())
    finally:
        srv.asyncio = st._AsyncioProxy(LS)
    hb.path_done("c01_e2e", kind)
    stored = st.tree_paths(server).get("/srv/f")
    if kind in ("download", "download_read"):
        if got != old[off:] or back != old or stored != old:
            hb.KEY = "e2e-download"
            return False
        return True
    want = expected_store("appe" if kind == "append" else "stor", old, off, payload)
    if off and old is None:
        # restarting an upload of a missing file: 451 for the client, nothing created
        if flags.get("failed") != "451" or stored is not None:
            hb.KEY = "e2e-restart-of-missing-file"
            return False
        return True
    if "failed" in flags:
        hb.KEY = "e2e-upload-refused"
        return False
    if stored != want or back != want:
        hb.KEY = "e2e-upload"
        return False
    return True
