"""C11 harness library: the passive data-port pool neither loses nor duplicates ports."""
import asyncio
import errno

import aioftp

from .. import hbase as hb
from .. import step as st

LS = st.install_listeners()
PORTS = [7001, 7002, 7003]
# "@CONNECT": the client opens a data connection to the session's passive listener (then sends NOOP)
SCRIPTS = [["PASV"], ["EPSV"], ["PASV", "PASV"], ["EPSV", "PASV", "PWD"], ["PASV", "EPSV x"], ["PWD"], ["PASV", "@CONNECT"],
           ["EPSV", "@CONNECT", "PASV", "@CONNECT"]]
EXITS = ["quit", "eof", "cancel"]


def pool_ports(server):
    q = server.available_data_ports
    return sorted(p for _, p in list(q._queue))


def session(si, exit_i, k, n, h0, h1, h2, pr0, pr1, pr2, o0, o1, o2, o3, e):
    """n configured ports; h_i: port i currently held by another live session (not in the pool); pr_i: retry priority of
    port i in the pool; o_j: outcome of the j-th listener start (0 ok, 1 EADDRINUSE, 2 OSError(e)); cancel at iteration k"""
    hb.KEY = ""
    hb.reset_logs()
    ports = PORTS[:n]
    user = aioftp.User("bob", None, base_path="/srv")
    server = st.make_server([user], data_ports=ports)
    held = [p for p, h in zip(ports, (h0, h1, h2)) if h]
    # rebuild the pool: ports not held, with their priorities
    q = server.available_data_ports
    while not q.empty():
        q.get_nowait()
    for p, h, pr in zip(ports, (h0, h1, h2), (pr0, pr1, pr2)):
        if not h:
            q.put_nowait((pr, p))
    free_start = sorted(p for p in ports if p not in held)
    outcomes = [o0, o1, o2, o3]
    LS.started.clear()
    LS.calls = 0

    def fail(nth, port):
        o = outcomes[nth - 1] if nth - 1 < len(outcomes) else 0
        if o == 1:
            return OSError(errno.EADDRINUSE, "address in use")
        if o == 2:
            return OSError(e, "other failure")
        return None

    LS.fail = fail
    lines = list(SCRIPTS[si])
    ex = EXITS[exit_i]
    if ex == "quit":
        lines.append("QUIT")
    loop = hb.new_loop()
    task_box = {}
    fired = {"done": False}
    if ex == "cancel":
        def on_iter(lp, it):
            if it == k and not fired["done"] and "t" in task_box:
                fired["done"] = True
                task_box["t"].cancel()
        loop.on_iteration = on_iter
    obs = []

    def watch():
        c = next(iter(server.connections.values()), None)
        mine = []
        if c is not None and "passive_server" in c and c["passive_server"].done() and not c.passive_server.closed:
            mine = [c.passive_server_port]
        obs.append((pool_ports(server), mine))

    pre = dict(user=user, logged=True, cwd="/")
    writer = hb.CollectWriter()
    first = {"done": False}

    def inject_then_watch():
        if not first["done"]:
            first["done"] = True
            c = next(iter(server.connections.values()))
            st.inject(server, c, pre, LS)
        watch()

    data_ends = []

    def connect_then_watch():
        inject_then_watch()
        live = [(p, cb, l) for p, cb, l in LS.started if cb is not None and not l.closed]
        if live:
            dr, dw = hb.ScriptReader([], eof=False), hb.CollectWriter()
            data_ends.append(dw)
            asyncio.ensure_future(live[-1][1](dr, dw))

    items = [(10, st.Line(("NOOP" if l == "@CONNECT" else l) + "\r\n"), connect_then_watch if l == "@CONNECT" else inject_then_watch) for l in lines]
    reader = st.HookReader(items, eof=True)
    reader.final_hook = inject_then_watch
    reader.final_gap = 10
    raised = None
    try:
        t = loop.create_task(server.dispatcher(reader, writer))
        task_box["t"] = t
        loop.run_until_complete(t)
    except asyncio.CancelledError:
        pass
    except hb.vloop.StepBudgetExceeded:
        raise
    except Exception as exn:  # noqa: BLE001
        raised = exn
    loop.run_idle()
    LS.fail = None
    codes = [c for c, _, _ in hb.reply_codes(writer)]
    hb.path_done("c11", ex + ":" + ",".join(codes))
    if raised is not None:
        hb.KEY = "dispatcher-raised"
        return False
    # (1) after the session is gone: pool == configured - held by others, each port once, no listener left
    end = pool_ports(server)
    if end != free_start:
        hb.KEY = "port-lost" if len(end) < len(free_start) else "port-duplicated"
        return False
    if LS.live():
        hb.KEY = "listener-left"
        return False
    if any(not dw.closed for dw in data_ends):
        hb.KEY = "data-connection-left"
        return False
    # (2) between events: pool + this session's live listener == configured - held
    for pool, mine in obs:
        if sorted(pool + mine) != free_start:
            hb.KEY = "between-events"
            return False
    # (3) exhaustion is answered 421; a first attempt that succeeds is answered 227/229
    if ex != "cancel" and lines[0] in ("PASV", "EPSV"):
        tries = outcomes[: len(free_start)]
        all_busy = all(o == 1 or (o == 2 and e == errno.EADDRINUSE) for o in tries)
        if all_busy:
            if codes[1:2] != ["421"]:
                hb.KEY = "exhaustion-not-421"
                return False
        elif tries[0] == 0:
            if codes[1:2] != (["227"] if lines[0] == "PASV" else ["229"]):
                hb.KEY = "passive-reply"
                return False
    return True
