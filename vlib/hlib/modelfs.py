"""ModelFS / ModelPath: an executable POSIX reference model with the pathlib.Path surface that aioftp's PathIO and
AsyncPathIO use (they only call methods on the path object), so that both run without system calls.

Validated against the real filesystem natively at the start of every C18 run (validate_against_real_fs), exhaustively
over the one-step universe of trees x operations x arguments.
"""
import errno
import pathlib
import stat as stat_mod


class ModelFS:
    def __init__(self, tree=None):
        # path (str, absolute, normalised) -> 'dir' | bytearray ; '/' is implicit
        self.nodes = {}
        for k, v in (tree or {}).items():
            self.nodes[k] = "dir" if v == "dir" else bytearray(v)
        self.open_files = 0
        self.mtime = 1700000000

    def snapshot(self):
        return {k: ("dir" if v == "dir" else bytes(v)) for k, v in self.nodes.items()}

    def kind(self, p):
        if p == "/":
            return "dir"
        v = self.nodes.get(p)
        if v is None:
            return None
        return "dir" if isinstance(v, str) else "file"

    def through_file(self, p):
        """True if some proper ancestor of p is a file (ENOTDIR) ; None-kind ancestors -> ENOENT"""
        parts = [x for x in p.split("/") if x]
        cur = ""
        for s in parts[:-1]:
            cur += "/" + s
            k = self.kind(cur)
            if k == "file":
                return True
            if k is None:
                return False
        return False

    def children(self, p):
        pre = p.rstrip("/") + "/"
        return sorted(k for k in self.nodes if k.startswith(pre) and "/" not in k[len(pre):])


def _err(cls, code, p):
    return cls(code, "model: " + cls.__name__, str(p))


class ModelPath:
    def __init__(self, fs, p="/"):
        self.fs = fs
        self.p = pathlib.PurePosixPath(p)

    # -- pure path surface
    def __truediv__(self, other):
        return ModelPath(self.fs, self.p / (other.p if isinstance(other, ModelPath) else other))

    def __rtruediv__(self, other):
        return ModelPath(self.fs, pathlib.PurePosixPath(other) / self.p)

    @property
    def parent(self):
        return ModelPath(self.fs, self.p.parent)

    @property
    def name(self):
        return self.p.name

    @property
    def parts(self):
        return self.p.parts

    def is_relative_to(self, other):
        return self.p.is_relative_to(other.p if isinstance(other, ModelPath) else other)

    def relative_to(self, other):
        return self.p.relative_to(other.p if isinstance(other, ModelPath) else other)

    def is_absolute(self):
        return self.p.is_absolute()

    def __eq__(self, other):
        return isinstance(other, ModelPath) and self.p == other.p

    def __ne__(self, other):
        return not self.__eq__(other)

    def __hash__(self):
        return hash(self.p)

    def __str__(self):
        return str(self.p)

    def __repr__(self):
        return f"ModelPath({str(self.p)!r})"

    def __fspath__(self):
        return str(self.p)

    @property
    def s(self):
        return str(self.p)

    # -- filesystem surface (pathlib.Path semantics on POSIX)
    def exists(self):
        return self.fs.kind(self.s) is not None

    def is_dir(self):
        return self.fs.kind(self.s) == "dir"

    def is_file(self):
        return self.fs.kind(self.s) == "file"

    def mkdir(self, mode=0o777, parents=False, exist_ok=False):
        fs, p = self.fs, self.s
        k = fs.kind(p)
        if k is not None:
            if k == "dir" and exist_ok:
                return
            raise _err(FileExistsError, errno.EEXIST, p)
        par = str(self.p.parent)
        pk = fs.kind(par)
        if pk == "file" or fs.through_file(p):
            raise _err(NotADirectoryError, errno.ENOTDIR, p)
        if pk is None:
            if not parents:
                raise _err(FileNotFoundError, errno.ENOENT, p)
            self.parent.mkdir(parents=True, exist_ok=True)
        fs.nodes[p] = "dir"

    def rmdir(self):
        fs, p = self.fs, self.s
        k = fs.kind(p)
        if k is None:
            raise _err(NotADirectoryError if fs.through_file(p) else FileNotFoundError, errno.ENOENT, p)
        if k != "dir":
            raise _err(NotADirectoryError, errno.ENOTDIR, p)
        if fs.children(p):
            raise _err(OSError, errno.ENOTEMPTY, p)
        if p == "/":
            raise _err(OSError, errno.EBUSY, p)
        del fs.nodes[p]

    def unlink(self, missing_ok=False):
        fs, p = self.fs, self.s
        k = fs.kind(p)
        if k is None:
            raise _err(NotADirectoryError if fs.through_file(p) else FileNotFoundError, errno.ENOENT, p)
        if k == "dir":
            raise _err(IsADirectoryError, errno.EISDIR, p)
        del fs.nodes[p]

    def glob(self, pattern):
        assert pattern == "*"
        if self.fs.kind(self.s) != "dir":
            return iter(())
        return iter([ModelPath(self.fs, c) for c in self.fs.children(self.s)])

    def stat(self):
        fs, p = self.fs, self.s
        k = fs.kind(p)
        if k is None:
            raise _err(NotADirectoryError if fs.through_file(p) else FileNotFoundError, errno.ENOENT, p)

        class St:
            pass

        st = St()
        st.st_mtime = st.st_ctime = fs.mtime
        st.st_nlink = 1
        if k == "dir":
            st.st_size = 4096
            st.st_mode = stat_mod.S_IFDIR | 0o755
        else:
            st.st_size = len(fs.nodes[p])
            st.st_mode = stat_mod.S_IFREG | 0o644
        return st

    def open(self, mode="r", *a, **kw):
        fs, p = self.fs, self.s
        if mode not in ("rb", "wb", "ab", "r+b"):
            raise ValueError(f"invalid mode: {mode!r}")
        k = fs.kind(p)
        if k == "dir":
            raise _err(IsADirectoryError, errno.EISDIR, p)
        if k is None:
            if mode in ("rb", "r+b"):
                raise _err(NotADirectoryError if fs.through_file(p) else FileNotFoundError, errno.ENOENT, p)
            pk = fs.kind(str(self.p.parent))
            if pk != "dir":
                raise _err(NotADirectoryError if (pk == "file" or fs.through_file(p)) else FileNotFoundError, errno.ENOENT, p)
            fs.nodes[p] = bytearray()
        elif mode == "wb":
            fs.nodes[p] = bytearray()
        return ModelFile(fs, p, mode)

    def rename(self, target):
        fs, src = self.fs, self.s
        dst = target.s if isinstance(target, ModelPath) else str(target)
        sk = fs.kind(src)
        if sk is None:
            raise _err(NotADirectoryError if fs.through_file(src) else FileNotFoundError, errno.ENOENT, src)
        dpk = fs.kind(str(pathlib.PurePosixPath(dst).parent))
        if dpk is None:
            raise _err(NotADirectoryError if fs.through_file(dst) else FileNotFoundError, errno.ENOENT, dst)
        if dpk == "file":
            raise _err(NotADirectoryError, errno.ENOTDIR, dst)
        if src == dst:
            return ModelPath(fs, dst)
        if sk == "dir" and (dst + "/").startswith(src + "/"):
            raise _err(OSError, errno.EINVAL, dst)
        dk = fs.kind(dst)
        if dk is not None:
            if sk == "dir" and dk == "file":
                raise _err(NotADirectoryError, errno.ENOTDIR, dst)
            if sk == "file" and dk == "dir":
                raise _err(IsADirectoryError, errno.EISDIR, dst)
            if dk == "dir" and fs.children(dst):
                raise _err(OSError, errno.ENOTEMPTY, dst)
            del fs.nodes[dst]
        moved = {}
        for kx in list(fs.nodes):
            if kx == src or kx.startswith(src + "/"):
                moved[dst + kx[len(src):]] = fs.nodes.pop(kx)
        fs.nodes.update(moved)
        return ModelPath(fs, dst)


class ModelFile:
    def __init__(self, fs, p, mode):
        self.fs, self.p, self.mode = fs, p, mode
        self.pos = 0
        self.closed = False
        fs.open_files += 1

    def _buf(self):
        return self.fs.nodes[self.p]

    def seek(self, offset, whence=0):
        if whence == 0:
            self.pos = offset
        elif whence == 1:
            self.pos += offset
        else:
            self.pos = len(self._buf()) + offset
        if self.pos < 0:
            raise OSError(errno.EINVAL, "negative seek")
        return self.pos

    def read(self, n=-1):
        if self.mode in ("wb", "ab"):
            import io

            raise io.UnsupportedOperation("read")
        b = self._buf()
        if n is None or n < 0:
            n = len(b)
        out = bytes(b[self.pos:self.pos + n])
        self.pos += len(out)
        return out

    def write(self, data):
        if self.mode == "rb":
            import io

            raise io.UnsupportedOperation("write")
        b = self._buf()
        if self.mode == "ab":
            self.pos = len(b)
        if self.pos > len(b):
            b.extend(b"\0" * (self.pos - len(b)))
        b[self.pos:self.pos + len(data)] = data
        self.pos += len(data)
        return len(data)

    def close(self):
        if not self.closed:
            self.closed = True
            self.fs.open_files -= 1
