"""C05 harness library: the real dispatcher against the sequential reference model (one step / short sessions)."""
import aioftp

from .. import hbase as hb
from .. import step as st
from . import model as M

LS = st.install_listeners()

BASE = "/srv"
TREE = {"/a": "dir", "/a/f": b"hello", "/a/d": "dir", "/zz": b""}
USERS = {"admin": "secret", "bob": None}
PATH_ARGS = ["a", "/a/f", "missing", "a/f/x", "f", "a/missing/x", "..", "", "/", "d", "/a/d/../f", "zz"]
PAYLOAD = b"XY"


def real_tree_spec():
    spec = {BASE: "dir"}
    for k, v in TREE.items():
        spec[BASE + k] = v
    return spec


def virtual_tree(server):
    out = {}
    for k, v in st.tree_paths(server).items():
        if k == BASE:
            continue
        if k.startswith(BASE + "/"):
            out[k[len(BASE):]] = v
        else:
            out["!outside:" + k] = v
    return out


def mk_users():
    return [aioftp.User("admin", "secret", base_path=BASE), aioftp.User("bob", None, base_path=BASE)]


def final_codes(replies):
    return [c for c, sep, _ in replies if sep == " " and len(c) == 3 and c.isdigit() and c.isascii()]


def to_model_state(s):
    rf = s["rename_from"]
    if rf is not None:
        rf = rf[len(BASE):] if rf.startswith(BASE) else "!" + rf
        rf = rf or "/"
    return dict(user=s["user"], logged=s["logged"], cwd=s["cwd"], rename_from=rf, rest=s["restart_offset"],
                passive=s["passive"], data=s["data"], type=s["type"])


def session(pre, cmds, connect_before=()):
    """Run the real dispatcher over cmds = [(verb_text, arg)], compare with the model command by command.
    `pre` is a dict(who, logged, cwd, rename, rest, passive, data, type).  connect_before: indexes of commands before which
    the client opens a data connection to the passive listener (if any).  -> (ok, detail)"""
    hb.KEY = ""
    hb.reset_logs()
    us = mk_users()
    server = st.make_server(us, block_size=3)
    st.build_tree(server, real_tree_spec())
    LS.started.clear()
    who = pre.get("who", 2)
    user = us[who - 1] if who else None
    ipre = dict(user=user, logged=pre.get("logged", False), cwd=pre.get("cwd", "/"), rename_from=pre.get("rename"),
                restart_offset=pre.get("rest", 0), passive=pre.get("passive", False), type=pre.get("type"))
    if pre.get("data"):
        ipre["data"] = ([PAYLOAD], None)
    mstate = M.initial(user=(user.login if user else None), logged=ipre["logged"], cwd=ipre["cwd"] if user else None,
                       rename_from=ipre["rename_from"], rest=ipre["restart_offset"], passive=ipre["passive"],
                       data=bool(pre.get("data")), type_=ipre["type"])
    mtree = dict(TREE)
    data_ends = []

    def connector(res):
        # the client connects to the passive listener: through the handler callback registered by PASV/EPSV
        live = [(p, cb, l) for p, cb, l in LS.started if cb is not None and not l.closed]
        if live:
            dr = hb.ScriptReader([(0, PAYLOAD)], eof=True)
            dw = hb.CollectWriter()
            data_ends.append((dr, dw))
            import asyncio
            asyncio.ensure_future(live[-1][1](dr, dw))

    hooks = {i: connector for i in connect_before}
    hb.SpyPathIO.reset()
    lines = [v + ((" " + a) if a != "" else "") for v, a in cmds]
    res = st.dispatcher_session(server, ipre, lines, listeners=LS, hooks=hooks)
    head, per = st.per_command_replies(res)
    sig = []
    ok = True
    ended_model = False
    retr_expect = []
    for i, (v, a) in enumerate(cmds):
        verb = v.lower()
        if ended_model:
            break
        if i in connect_before and mstate["passive"] and any(cb is not None for _, cb, _ in LS.started):
            # model of the connect event: a second connection while one is pending is closed by the server
            mstate = dict(mstate)
            mstate["data"] = True
        outcomes = [M.step(mstate, verb, a, mtree, USERS, payload=PAYLOAD)] + M.alternatives(mstate, verb, a, mtree, USERS)
        got = final_codes(per[i]) if i < len(per) else None
        sig.append(",".join(got or ["-"]))
        rs = to_model_state(res.states[i + 1]) if i + 1 < len(res.states) else None
        chosen, why = None, ""
        for want, mstate2, mtree2, ends in outcomes:
            if got != want:
                why = why or f"replies:{verb}:{'/'.join(want)}"
                continue
            if ends:
                if rs is not None:
                    why = why or f"session-not-ended:{verb}"
                    continue
            else:
                if rs is None:
                    why = why or f"session-ended:{verb}"
                    continue
                cmp_keys = [k for k in rs if not (k == "rest" and verb in ("retr", "stor", "appe"))]
                # (after a transfer command the raw offset field is dead: it is reset when the next command arrives)
                diff = [k for k in cmp_keys if rs[k] != mstate2[k]]
                if diff:
                    why = why or f"state:{verb}:{','.join(diff)}"
                    continue
            chosen = (want, mstate2, mtree2, ends)
            break
        if chosen is None:
            hb.KEY = hb.KEY or why
            ok = False
            break
        want, mstate2, mtree2, ends = chosen
        if verb == "retr" and want == ["150", "226"]:
            retr_expect.append(M.retr_bytes(mstate, a, mtree))
        if ends:
            ended_model = True
        mstate, mtree = mstate2, mtree2
    if ok:
        vt = virtual_tree(server)
        if vt != mtree:
            hb.KEY = hb.KEY or "tree"
            ok = False
    if ok and res.raised is not None:
        hb.KEY = hb.KEY or "dispatcher-raised"
        ok = False
    if ok and retr_expect:
        # data channels in the order they were consumed: the injected one first, then the connected ones
        writers = ([res.data_writer] if res.data_writer is not None else []) + [dw for _, dw in data_ends]
        used = [w for w in writers if w.chunks or w.closed]
        sent = [w.data() for w in used if w.data() or True]
        got_retr = [w.data() for w in used]
        # every expected download appears, in order, among the used data channels (uploads/listings use channels too)
        j = 0
        for exp in retr_expect:
            while j < len(got_retr) and got_retr[j] != exp:
                j += 1
            if j >= len(got_retr):
                hb.KEY = hb.KEY or "retr-bytes"
                ok = False
                break
            j += 1
        if ok and not all(w.closed for w in used):
            hb.KEY = hb.KEY or "data-not-closed"
            ok = False
    return ok, ";".join(sig), res, data_ends


def step(verb, arg, cwd_i, ren_i, rest_v, passive, data, logged=True, who=2, type_=None):
    pre = dict(who=who, logged=logged, cwd=["/", "/a"][cwd_i], rename=[None, "/a/f", "/gone"][ren_i], rest=0,
               passive=passive or data, data=data, type=type_)
    # a pending restart offset exists only right after REST: the pre-state is produced by a real "REST n" command
    cmds = ([("REST", str(rest_v))] if rest_v else []) + [(verb.upper(), arg)]
    ok, sig, res, _ = session(pre, cmds)
    hb.path_done("c05_" + verb, sig)
    return ok


# session alphabet for harness B: what a single step cannot show - reply order, restart-offset scoping across commands,
# RNFR...RNTO pairing, the session continuing after 502/503/5xx, data connection life cycle
ALPHA = [("PWD", ""), ("REST", "2"), ("REST", "x"), ("RETR", "a/f"), ("STOR", "n"), ("APPE", "a/f"), ("RNFR", "a/f"), ("RNTO", "g"),
         ("PASV", ""), ("EPSV", ""), ("CWD", "a"), ("NOOP", ""), ("USER", "admin"), ("USER", "bob"), ("PASS", "secret"), ("PASS", "x"),
         ("LIST", ""), ("MLSD", "a"), ("TYPE", "I"), ("DELE", "a/f"), ("MKD", "a/f/x"), ("ABOR", ""), ("QUIT", ""), ("MLST", "zz"),
         ("RMD", "a"), ("CDUP", ""), ("SYST", ""), ("RNTO", "a/f/x"), ("STOR", "a")]


def seq(i0, i1, i2, c1, c2, passive, n):
    cmds = [ALPHA[i0], ALPHA[i1], ALPHA[i2]][:n]
    cb = tuple(k for k, c in ((1, c1), (2, c2)) if c and k < n)
    pre = dict(who=2, logged=True, cwd="/", passive=passive)
    ok, sig, res, _ = session(pre, cmds, connect_before=cb)
    hb.path_done("c05_seq", sig)
    return ok
