"""C18 harness library: the shipped storage backends are interchangeable."""
import asyncio
import itertools
import os
import pathlib
import shutil
import stat as stat_mod
import tempfile

import aioftp
from aioftp import pathio

from .. import hbase as hb
from .. import step as st
from .modelfs import ModelFS, ModelPath

LS = st.install_listeners()
P1, P2 = b"0123456789", b"ab"
ARGS = ["/a", "/a/f", "/a/d", "/a/d/g", "/f", "/m/x", "/a/f/x", "/new", "/a/new"]


def tree_of(a, af, ad, adg, f):
    """0 absent, 1 file, 2 dir ; children only below directories -> dict or None if inconsistent"""
    t = {}
    if a == 1:
        t["/a"] = P1
    elif a == 2:
        t["/a"] = "dir"
    if af or ad:
        if a != 2:
            return None
    if af == 1:
        t["/a/f"] = P1
    elif af == 2:
        t["/a/f"] = "dir"
    if ad == 1:
        t["/a/d"] = P2
    elif ad == 2:
        t["/a/d"] = "dir"
    if adg:
        if ad != 2:
            return None
        t["/a/d/g"] = P2 if adg == 1 else "dir"
    if f == 1:
        t["/f"] = P2
    elif f == 2:
        t["/f"] = "dir"
    return t


def all_trees():
    out = []
    for a, af, ad, adg, f in itertools.product(range(3), repeat=5):
        t = tree_of(a, af, ad, adg, f)
        if t is not None:
            out.append(((a, af, ad, adg, f), t))
    return out


# operations: (name, n_args, extra)  -- run through the BACKEND API
OPS = ["exists", "is_dir", "is_file", "mkdir", "mkdir_p", "mkdir_e", "mkdir_pe", "rmdir", "unlink", "list", "stat",
       "read", "read_seek", "write_wb", "write_ab", "write_r+", "write_r+_seek", "rename"]


async def do_op(pio, mk, op, a1, a2):
    """one backend operation -> normalised outcome ; mk(str) builds the backend's path object"""
    p = mk(a1)
    try:
        if op in ("exists", "is_dir", "is_file"):
            return ("ok", bool(await getattr(pio, op)(p)))
        if op.startswith("mkdir"):
            flags = op[6:]
            await pio.mkdir(p, parents="p" in flags, exist_ok="e" in flags)
            return ("ok", None)
        if op == "rmdir":
            await pio.rmdir(p)
            return ("ok", None)
        if op == "unlink":
            await pio.unlink(p)
            return ("ok", None)
        if op == "list":
            names = []
            async for x in pio.list(p):
                names.append(x.name)
            return ("ok", sorted(names))
        if op == "stat":
            s = await pio.stat(p)
            isdir = stat_mod.S_ISDIR(s.st_mode)
            return ("ok", ("dir", None) if isdir else ("file", s.st_size))
        if op in ("read", "read_seek"):
            async with pio.open(p, mode="rb") as f:
                if op == "read_seek":
                    await f.seek(3)
                data = await f.read(4)
                more = await f.read(100)
            return ("ok", (data, more))
        if op.startswith("write_"):
            mode = {"write_wb": "wb", "write_ab": "ab", "write_r+": "r+b", "write_r+_seek": "r+b"}[op]
            async with pio.open(p, mode=mode) as f:
                if op == "write_r+_seek":
                    await f.seek(12)
                await f.write(b"XY")
                await f.write(b"Z")
            return ("ok", None)
        if op == "rename":
            await pio.rename(p, mk(a2))
            return ("ok", None)
    except aioftp.PathIOError:
        return ("err",)
    raise AssertionError(op)


def real_snapshot(root):
    out = {}
    for dp, dns, fns in os.walk(root):
        rel = "/" + os.path.relpath(dp, root).replace(os.sep, "/") if dp != root else "/"
        for d in dns:
            out[(rel.rstrip("/") + "/" + d)] = "dir"
        for fn in fns:
            with open(os.path.join(dp, fn), "rb") as f:
                out[(rel.rstrip("/") + "/" + fn)] = f.read()
    return out


def build_real(root, tree):
    for k in sorted(tree):
        v = tree[k]
        p = root + k
        if v == "dir":
            os.mkdir(p)
        else:
            with open(p, "wb") as f:
                f.write(v)


def validate_against_real_fs(ops=None, limit_trees=None):
    """ModelPath == the real filesystem, exhaustively over the one-step universe (natively; also runs the REAL PathIO
    on the real directory, so PathIO-over-ModelPath == PathIO-over-disk is what is established).  -> (checked, disagreements)"""
    loop = hb.new_loop()
    base = tempfile.mkdtemp(prefix="verif_c18_")
    checked, bad = 0, []
    try:
        trees = all_trees()
        if limit_trees:
            trees = trees[::max(1, len(trees) // limit_trees)]
        n = 0
        for key, tree in trees:
            for op in (ops or OPS):
                arg2s = ARGS if op == "rename" else [None]
                for a1 in ARGS:
                    for a2 in arg2s:
                        n += 1
                        root = os.path.join(base, f"t{n}")
                        os.mkdir(root)
                        build_real(root, tree)
                        rp = pathio.PathIO()
                        out_real = loop.run_until_complete(do_op(rp, lambda s: pathlib.Path(root + s), op, a1, a2))
                        snap_real = real_snapshot(root)
                        fs = ModelFS(tree)
                        mp = pathio.PathIO()
                        out_model = loop.run_until_complete(do_op(mp, lambda s: ModelPath(fs, s), op, a1, a2))
                        checked += 1
                        if out_real != out_model or snap_real != fs.snapshot():
                            bad.append((key, op, a1, a2, out_real, out_model))
                        shutil.rmtree(root, ignore_errors=True)
    finally:
        shutil.rmtree(base, ignore_errors=True)
    return checked, bad


# -------------------------------------------------------------------------------------------------------------------
def api_pair(a, af, ad, adg, f, op_i, a1_i, a2_i):
    """PathIO vs AsyncPathIO over ModelPath objects: identical outcome and identical tree for every operation"""
    hb.KEY = ""
    tree = tree_of(hb.conc(a, 0, 2), hb.conc(af, 0, 2), hb.conc(ad, 0, 2), hb.conc(adg, 0, 2), hb.conc(f, 0, 2))
    if tree is None:
        return True
    op = OPS[hb.conc(op_i, 0, len(OPS) - 1)]
    a1 = ARGS[hb.conc(a1_i, 0, len(ARGS) - 1)]
    a2 = ARGS[hb.conc(a2_i, 0, len(ARGS) - 1)]
    loop = hb.new_loop()
    fs1, fs2 = ModelFS(tree), ModelFS(tree)
    o1 = loop.run_until_complete(do_op(pathio.PathIO(), lambda s: ModelPath(fs1, s), op, a1, a2))
    o2 = loop.run_until_complete(do_op(pathio.AsyncPathIO(timeout=None), lambda s: ModelPath(fs2, s), op, a1, a2))
    hb.path_done("c18_api", op + ":" + o1[0])
    if o1 != o2:
        hb.KEY = "outcome:" + op
        return False
    if fs1.snapshot() != fs2.snapshot():
        hb.KEY = "tree:" + op
        return False
    if fs1.open_files or fs2.open_files:
        hb.KEY = "file-left-open:" + op
        return False
    return True


VERBS = ["CWD", "MKD", "RMD", "DELE", "RNFR+RNTO", "MLST", "MLSD", "LIST", "RETR", "REST+RETR", "STOR", "APPE", "REST+STOR", "REST+APPE", "RNFR+RNTO-same"]
BACKENDS = ["memory", "pathio", "asyncpathio"]


def run_server(backend, tree, verb, a1, a2):
    """one client-visible operation on a server with the given backend -> (codes, data bytes, resulting tree)"""
    user = aioftp.User("bob", None, base_path="/srv")
    fs = None
    if backend == "memory":
        server = st.make_server([user], path_io_factory=aioftp.MemoryPathIO, block_size=4)
        spec = {"/srv": "dir"}
        for k in sorted(tree):
            spec["/srv" + k] = tree[k]
        st.build_tree(server, spec)
    else:
        fs = ModelFS({"/srv": "dir", **{"/srv" + k: v for k, v in tree.items()}})
        factory = pathio.PathIO if backend == "pathio" else pathio.AsyncPathIO
        server = st.make_server([user], path_io_factory=factory, block_size=4)
        user.base_path = ModelPath(fs, "/srv")
    LS.started.clear()
    pre = dict(user=user, logged=True, cwd="/", passive=True, data=([b"XYZ"], None))
    if verb == "RNFR+RNTO":
        lines = ["RNFR " + a1, "RNTO " + a2]
    elif verb == "RNFR+RNTO-same":
        lines = ["RNFR " + a1, "RNTO " + a1]
    elif verb.startswith("REST+"):
        lines = ["REST 12" if a2.endswith("w") else "REST 3", verb[5:] + " " + a1]
    else:
        lines = [verb + " " + a1]
    res = st.dispatcher_session(server, pre, lines + ["PWD"], listeners=LS)
    head, per = st.per_command_replies(res)
    codes = [[c for c, sep, _ in r if sep == " "] for r in per[: len(lines)]]
    data = res.data_writer.data() if res.data_writer is not None else b""
    if verb in ("MLSD", "LIST"):
        # listing order and the size/mode of directories are backend details: compare the set of names and types
        client = aioftp.Client(path_io_factory=aioftp.MemoryPathIO)
        rows = []
        for l in data.decode("utf-8").split("\r\n"):
            if l:
                nm, info = (client.parse_mlsx_line(l) if verb == "MLSD" else client.parse_list_line(l.encode("utf-8")))
                rows.append((str(nm), info["type"], info.get("size") if info["type"] == "file" else None))
        data = sorted(rows)
    if backend == "memory":
        snap = {k[len("/srv"):]: v for k, v in st.tree_paths(server).items() if k.startswith("/srv/")}
    else:
        snap = {k[len("/srv"):]: v for k, v in fs.snapshot().items() if k.startswith("/srv/")}
    alive = len(res.states) >= len(lines) + 1
    return codes, data, snap, alive


def server_triple(a, af, ad, adg, f, verb_i, a1_i, a2_i):
    """the same client-visible operation on the three backends: same replies, same transferred bytes, same tree; a command
    that fails changes nothing on any of them"""
    hb.KEY = ""
    tree = tree_of(hb.conc(a, 0, 2), hb.conc(af, 0, 2), hb.conc(ad, 0, 2), hb.conc(adg, 0, 2), hb.conc(f, 0, 2))
    if tree is None:
        return True
    verb = VERBS[hb.conc(verb_i, 0, len(VERBS) - 1)]
    a1 = ARGS[hb.conc(a1_i, 0, len(ARGS) - 1)]
    a2 = ARGS[hb.conc(a2_i, 0, len(ARGS) - 1)]
    results = [run_server(b, tree, verb, a1, a2) for b in BACKENDS]
    hb.path_done("c18_server", verb + ":" + "/".join(",".join(c) for c in results[0][0]))
    ref = results[1]
    for b, r in zip(BACKENDS, results):
        if r[0] != ref[0]:
            hb.KEY = f"replies:{verb}:{b}"
            return False
        if r[1] != ref[1]:
            hb.KEY = f"data:{verb}:{b}"
            return False
        if r[2] != ref[2]:
            hb.KEY = f"tree:{verb}:{b}"
            return False
        if not r[3]:
            hb.KEY = f"session-ended:{verb}:{b}"
            return False
    # a command that fails changes nothing
    final = ref[0][-1][-1] if ref[0] and ref[0][-1] else ""
    if final.startswith(("4", "5")) and ref[2] != tree:
        hb.KEY = f"failed-command-changed-tree:{verb}"
        return False
    return True


# -------------------------------------------------------------------------------------------------------------------
SEQ_OPS = ["STOR /a/f", "REST 3+STOR /a/f", "APPE /a/f", "RETR /a/f", "REST 3+RETR /a/f", "REST 12+STOR /a/f", "DELE /a/f", "REST 3+APPE /a/f", "STOR /a/n", "RNFR /a/f+RNTO /a/n"]
SEQ_TREE = {"/a": "dir", "/a/f": P1}


def run_server_seq(backend, ops):
    """a sequence of client-visible operations (each transfer on a fresh data connection to one passive listener)"""
    user = aioftp.User("bob", None, base_path="/srv")
    fs = None
    if backend == "memory":
        server = st.make_server([user], path_io_factory=aioftp.MemoryPathIO, block_size=4)
        st.build_tree(server, {"/srv": "dir", **{"/srv" + k: v for k, v in sorted(SEQ_TREE.items())}})
    else:
        fs = ModelFS({"/srv": "dir", **{"/srv" + k: v for k, v in SEQ_TREE.items()}})
        server = st.make_server([user], path_io_factory=pathio.PathIO if backend == "pathio" else pathio.AsyncPathIO, block_size=4)
        user.base_path = ModelPath(fs, "/srv")
    LS.started.clear()
    LS.fail = None
    datas = []

    def connector(payload):
        def f(res):
            live = [(p, cb, l) for p, cb, l in LS.started if cb is not None and not l.closed]
            dr, dw = hb.ScriptReader([(0, payload)] if payload else [], eof=True), hb.CollectWriter()
            datas.append(dw)
            asyncio.ensure_future(live[-1][1](dr, dw))
        return f

    lines, hooks = ["PASV"], {}
    for n, op in enumerate(ops):
        parts = op.split("+")
        for part in parts[:-1]:
            lines.append(part)
        last = parts[-1]
        verb = last.split(" ")[0]
        if verb in ("STOR", "APPE", "RETR"):
            hooks[len(lines)] = connector(b"UV%d" % n if verb != "RETR" else b"")
        lines.append(last)
    res = st.dispatcher_session(server, dict(user=user, logged=True, cwd="/"), lines + ["PWD"], listeners=LS, hooks=hooks)
    head, per = st.per_command_replies(res)
    codes = [[c for c, sep, _ in r if sep == " "] for r in per[1: len(lines)]]
    if backend == "memory":
        snap = {k[len("/srv"):]: v for k, v in st.tree_paths(server).items() if k.startswith("/srv/")}
    else:
        snap = {k[len("/srv"):]: v for k, v in fs.snapshot().items() if k.startswith("/srv/")}
    return codes, [d.data() for d in datas], snap, len(res.states) >= len(lines) + 1


def server_seq(i0, i1, i2):
    """the same 3-operation history on the three backends: same replies, same downloaded bytes, same tree"""
    hb.KEY = ""
    n = len(SEQ_OPS) - 1
    ops = [SEQ_OPS[hb.conc(i0, 0, n)], SEQ_OPS[hb.conc(i1, 0, n)], SEQ_OPS[hb.conc(i2, 0, n)]]
    results = [run_server_seq(b, ops) for b in BACKENDS]
    hb.path_done("c18_seq", "|".join(ops))
    ref = results[1]
    for b, r in zip(BACKENDS, results):
        if r[0] != ref[0]:
            hb.KEY = f"seq-replies:{b}"
            return False
        if r[1] != ref[1]:
            hb.KEY = f"seq-data:{b}"
            return False
        if r[2] != ref[2]:
            hb.KEY = f"seq-tree:{b}"
            return False
        if not r[3]:
            hb.KEY = f"seq-session-ended:{b}"
            return False
    return True
