"""Sequential reference model of the supported FTP command set (independent of aioftp's handlers).

Written from RFC 959 / 2428 / 3659 and aioftp's documentation.  Pure functions over an abstract session state and an
abstract tree (dict virtual-path -> 'dir' | bytes, the root '/' implicit).  It fixes the exact reply code wherever
aioftp's own client branches on it and the success/failure class everywhere else (here: exact codes throughout, the
few places where the class only is compared are marked CLASS in compare()).
"""

DATA_VERBS = ("list", "mlsd", "retr", "stor", "appe")
KNOWN = ("abor", "appe", "cdup", "cwd", "dele", "epsv", "list", "mkd", "mlsd", "mlst", "pass", "pasv", "pbsz", "prot", "pwd",
         "quit", "rest", "retr", "rmd", "rnfr", "rnto", "stor", "syst", "type", "user")


def resolve(cwd, arg):
    """Lexical resolution of a client path against cwd: absolute normalised virtual path; '..' stops at the root."""
    p = arg if arg.startswith("/") else (cwd.rstrip("/") + "/" + arg)
    out = []
    for seg in p.split("/"):
        if seg == "" or seg == ".":
            continue
        if seg == "..":
            if out:
                out.pop()
        else:
            out.append(seg)
    return "/" + "/".join(out)


def parent(p):
    if p == "/":
        return "/"
    q = p.rsplit("/", 1)[0]
    return q or "/"


def exists(tree, p):
    return p == "/" or p in tree


def is_dir(tree, p):
    return p == "/" or tree.get(p) == "dir"


def is_file(tree, p):
    return p in tree and tree[p] != "dir"


def children(tree, p):
    pre = p.rstrip("/") + "/"
    return [k for k in tree if k.startswith(pre) and "/" not in k[len(pre):]]


def initial(user=None, logged=False, cwd="/", rename_from=None, rest=0, passive=False, data=False, type_=None):
    return dict(user=user, logged=logged, cwd=cwd, rename_from=rename_from, rest=rest, passive=passive, data=data, type=type_)


def step(st, verb, arg, tree, users, payload=b"", data_will_connect=False):
    """One command.  users: dict login -> password|None, key None = anonymous account.
    -> (replies, state', tree', ends)   replies: list of codes, in order."""
    s = dict(st)
    t = dict(tree)
    # the restart offset applies only to a transfer command that immediately follows REST
    offset = s["rest"] if verb in ("retr", "stor", "appe") else 0
    s["rest"] = 0

    def done(replies, ends=False):
        return replies, s, t, ends

    if verb not in KNOWN:
        return ["502"], s, t, False
    if verb == "user":
        s["user"] = None
        s["logged"] = False
        if arg in users and arg is not None:
            login = arg
        elif None in users:
            login = None
        else:
            return done(["530"])
        s["user"] = login if login is not None else "anonymous"
        s["cwd"] = "/"
        if users[login] is None:
            s["logged"] = True
            return done(["230"])
        return done(["331"])
    if verb == "pass":
        if s["user"] is None:
            return done(["503"])
        if s["logged"]:
            return done(["503"])
        key = None if s["user"] == "anonymous" else s["user"]
        if users.get(key) is not None and users.get(key) == arg:
            s["logged"] = True
            return done(["230"])
        return done(["530"])
    if verb == "quit":
        return done(["221"], True)
    if verb == "syst":
        return done(["215"])
    if verb == "rest":
        if arg != "" and all(c in "0123456789" for c in arg):
            s["rest"] = int(arg)
            return ["350"], s, t, False
        return ["501"], s, t, False
    # everything below needs a completed login
    if not s["logged"]:
        return done(["503"])
    if verb == "pwd":
        return done(["257"])
    if verb == "type":
        if arg in ("I", "A"):
            s["type"] = arg
            return done(["200"])
        return done(["502"])
    if verb == "pbsz":
        return done(["200"])
    if verb == "prot":
        return done(["200"] if arg == "P" else ["502"])
    if verb == "abor":
        return done(["226"])
    if verb in ("pasv", "epsv"):
        if verb == "epsv" and arg != "":
            return done(["522"], True)
        s["passive"] = True
        s["data"] = False  # a stale data connection is closed and forgotten
        return done(["227"] if verb == "pasv" else ["229"])
    if verb == "cdup":
        verb_arg = parent(s["cwd"])
        p = verb_arg
    else:
        p = resolve(s["cwd"], arg)
    if verb in ("cwd", "cdup"):
        if not exists(t, p) or not is_dir(t, p):
            return done(["550"])
        s["cwd"] = p
        return done(["250"])
    if verb == "mkd":
        if exists(t, p):
            return done(["550"])
        # create with parents; a file on the way is a storage error
        segs = [x for x in p.split("/") if x]
        cur = ""
        for sgm in segs:
            cur += "/" + sgm
            if is_file(t, cur):
                # the part already created stays (the storage layer is not transactional)
                return done(["451"])
            if not exists(t, cur):
                t[cur] = "dir"
        return done(["257"])
    if verb == "rmd":
        if not exists(t, p) or not is_dir(t, p):
            return done(["550"])
        if children(t, p):
            return done(["451"])
        t.pop(p, None)
        return done(["250"])
    if verb == "dele":
        if not exists(t, p) or not is_file(t, p):
            return done(["550"])
        t.pop(p)
        return done(["250"])
    if verb == "mlst":
        if not exists(t, p):
            return done(["550"])
        return done(["250"])
    if verb == "rnfr":
        if not exists(t, p):
            return done(["550"])
        s["rename_from"] = p
        return done(["350"])
    if verb == "rnto":
        if s["rename_from"] is None:
            return done(["503"])
        if exists(t, p):
            return done(["550"])
        src = s["rename_from"]
        s["rename_from"] = None
        if not exists(t, src) or not is_dir(t, parent(p)):
            return done(["451"])
        moved = {}
        for k in list(t):
            if k == src or k.startswith(src + "/"):
                moved[p + k[len(src):]] = t.pop(k)
        t.update(moved)
        return done(["250"])
    # data verbs
    if not s["passive"]:
        return done(["503"])
    if verb in ("list", "mlsd"):
        if not exists(t, p):
            return done(["550"])
        ok = "226" if verb == "list" else "200"
    elif verb == "retr":
        if not exists(t, p) or not is_file(t, p):
            return done(["550"])
        ok = "226"
    else:  # stor / appe
        if not is_dir(t, parent(p)):
            return done(["550"])
        ok = "226"
    if not (s["data"] or data_will_connect):
        return done(["150", "425"])
    s["data"] = False
    if verb in ("stor", "appe"):
        if is_dir(t, p):
            return done(["150", "451"])
        off = offset
        if off and not is_file(t, p):
            return done(["150", "451"])  # a restarted upload needs the file it restarts: nothing is created
        old = t.get(p, b"") if is_file(t, p) else b""
        if off:
            if payload:
                new = old.ljust(off, b"\0")[:off] + payload + old[off + len(payload):]
            else:
                new = old
        elif verb == "appe":
            new = old + payload
        else:
            new = payload
        t[p] = new
    return done(["150", ok])


def retr_bytes(st, arg, tree):
    """bytes a RETR issued in state `st` (before the command) delivers"""
    p = resolve(st["cwd"], arg)
    return tree[p][st["rest"]:]


def alternatives(st, verb, arg, tree, users, **kw):
    """Outcomes the model accepts besides step(): REST with non-ASCII Unicode decimal digits may be accepted (Python's int
    understands them) or refused with 501."""
    out = []
    if verb == "rest" and arg != "" and not arg.isascii() and arg.isdecimal():
        s = dict(st)
        s["rest"] = int(arg)
        out.append((["350"], s, dict(tree), False))
    return out
