"""C16 harness library: configured timeouts bound how long a stalled peer can hold a session (symbolic virtual time)."""
import asyncio

import aioftp

from .. import hbase as hb
from .. import step as st

LS = st.install_listeners()
TREE = {"/srv": "dir", "/srv/f": b"abcdef"}


def mk(T, S, W, bs=2):
    user = aioftp.User("bob", None, base_path="/srv")
    server = st.make_server([user], idle_timeout=T, socket_timeout=S, wait_future_timeout=W, block_size=bs)
    st.build_tree(server, TREE)
    LS.started.clear()
    LS.fail = None
    return server, user


def reply_times(writer):
    out = []
    for chunk, t in zip(writer.chunks, writer.times):
        out.append((chunk[:3].decode("ascii", "replace"), t))
    return out


def clean(server, loop, writer, datas=()):
    """C12's ledger after the release"""
    loop.run_idle()
    if not writer.closed or server.connections:
        return False
    if any(not dw.closed for dw in datas):
        return False
    if LS.live():
        return False
    return True


def idle(T, g1, g2, g3, n_cmds):
    """a session silent on the control channel is dropped exactly idle_timeout after its last command; one that keeps
    sending commands within it is never dropped for idleness"""
    hb.KEY = ""
    n_cmds = hb.conc(n_cmds, 0, 3)
    server, user = mk(T, None, 1)
    loop = hb.new_loop()
    lines = ["USER bob", "SYST", "PWD"][:n_cmds]
    gaps = [g1, g2, g3][:n_cmds]
    items = [(g, st.Line(l + "\r\n"), None) for g, l in zip(gaps, lines)]
    reader = st.HookReader(items, eof=False)  # after the script: silence for ever
    writer = hb.CollectWriter()
    loop.run_until_complete(server.dispatcher(reader, writer))
    end = loop.time()
    codes = [c for c, _ in reply_times(writer)]
    # reference: the first gap that exceeds T ends the session T after the previous command
    t = 0
    exp_codes = ["220"]
    tie = False
    all_codes = ["230", "215", "257"]
    for i, g in enumerate(gaps):
        if g > T:
            break
        if g == T:
            tie = True  # the timer and the arriving line fall on the same instant: real loops do not order them
            break
        t += g
        exp_codes.append(all_codes[i])
    exp_end = t + T
    hb.path_done("c16_idle", ",".join(codes))
    if codes[-1:] == ["421"] and len(codes) == len(exp_codes) + 1:
        codes = codes[:-1]  # a farewell 421 before the control connection is closed is allowed (RFC 959)
    if tie:
        ok = end == exp_end or codes[: len(exp_codes)] == exp_codes
    else:
        ok = codes == exp_codes and end == exp_end
    if not ok:
        hb.KEY = "idle-drop-time"
        return False
    if writer.closed_at is None or (not tie and writer.closed_at != exp_end):
        hb.KEY = "control-socket-close-time"
        return False
    if not clean(server, loop, writer):
        hb.KEY = "not-clean"
        return False
    return True


def no_data_connection(W, T, g, kind_i):
    """a transfer whose data connection is not made within wait_future_timeout is answered 425 exactly then; the session continues"""
    hb.KEY = ""
    kind = ["RETR f", "STOR n", "LIST", "MLSD", "APPE f"][hb.conc(kind_i, 0, 4)]
    server, user = mk(T, None, W)
    loop = hb.new_loop()
    pre = dict(user=user, logged=True, cwd="/")
    res = st.dispatcher_session(server, pre, ["PASV", kind, "PWD"], gap=g, listeners=LS, loop=loop, final_gap=g + W + 10)
    rt = reply_times(res.writer)
    codes = [c for c, _ in rt]
    hb.path_done("c16_nodata", ",".join(codes))
    if res.raised is not None:
        hb.KEY = "raised"
        return False
    # timeline: 220 at 0; PASV delivered at g; transfer at 2g -> 150 at 2g, 425 at 2g + W; PWD delivered at 3g
    want = ["220", "227", "150", "425", "257"] if W < g else None
    t150 = next((t for c, t in rt if c == "150"), None)
    t425 = next((t for c, t in rt if c == "425"), None)
    if t150 != 2 * g or t425 != 2 * g + W:
        hb.KEY = "425-time"
        return False
    if W < g and codes != want:
        hb.KEY = "transcript"
        return False
    if "257" not in codes:
        hb.KEY = "session-did-not-continue"
        return False
    return True


class StallReader:
    """data socket that delivers n bytes and then stops moving for ever"""

    def __init__(self, chunks, gap):
        self.chunks, self.gap = list(chunks), gap

    async def read(self, n=-1):
        if not self.chunks:
            await asyncio.get_running_loop().create_future()
        await asyncio.sleep(self.gap)
        return self.chunks.pop(0)

    readline = read


def data_stall(S, T, d, n_ok, upload, use_epsv=False):
    """a data connection that stops moving is given up exactly socket_timeout after it last moved; full clean-up follows"""
    hb.KEY = ""
    n_ok = hb.conc(n_ok, 0, 2)
    server, user = mk(T, S, 5)
    loop = hb.new_loop()
    if upload:
        dr = StallReader([b"xy"] * n_ok, d)
        dw = hb.CollectWriter()
    else:
        dr = hb.ScriptReader([], eof=False)
        dw = hb.CollectWriter(block_after=n_ok)  # the peer stops reading after n_ok blocks
    holder = {}
    pre = dict(user=user, logged=True, cwd="/")
    cmd = "STOR n" if upload else "RETR f"
    writer = hb.CollectWriter()

    def hook_first():
        c = next(iter(server.connections.values()))
        st.inject(server, c, pre, LS)

    def hook_connect():
        # the client connects to the listener opened by the real PASV/EPSV handler: the data stream is built by aioftp
        live = [(p, cb, l) for p, cb, l in LS.started if cb is not None and not l.closed]
        asyncio.ensure_future(live[-1][1](dr, dw))
        holder["t0"] = loop.time() + 5

    passive = "EPSV" if use_epsv else "PASV"
    reader = st.HookReader([(5, st.Line(passive + "\r\n"), hook_first), (5, st.Line("NOOP\r\n"), hook_connect), (5, st.Line(cmd + "\r\n"), None)], eof=False)
    raised = None
    try:
        loop.run_until_complete(server.dispatcher(reader, writer))
    except Exception as e:  # noqa: BLE001
        raised = e
    end = loop.time()
    codes = [c for c, _ in reply_times(writer)]
    hb.path_done("c16_stall", ",".join(codes))
    t0 = holder.get("t0", 0)
    # upload: n_ok chunks arrive d apart, then silence: the read that never completes started at t0 + n_ok*d
    # download: writes complete instantly until the peer stops reading: the blocked drain started at t0
    moved_last = t0 + (n_ok * d if upload else 0)
    if upload and d >= S and n_ok > 0:
        if d == S:
            return True  # tie between the timer and the arriving block
        moved_last = t0  # already the first block is too slow
    exp = moved_last + S
    if T is not None and 15 + T <= exp:
        if 15 + T == exp:
            return True  # both timers fall on the same instant
        exp = 15 + T  # the silent control channel is dropped for idleness first: everything is released then
    if dw.closed_at != exp:
        hb.KEY = "data-giveup-time"
        return False
    if raised is not None:
        hb.KEY = "raised"
        return False
    if not clean(server, loop, writer, [dw]):
        hb.KEY = "not-clean"
        return False
    if T is not None and end > max(exp, 15 + T):
        hb.KEY = "held-too-long"
        return False
    return True


def control_write_stall(S, T):
    """a control connection whose peer stops reading is bounded by socket_timeout (write side), not by idle_timeout"""
    hb.KEY = ""
    server, user = mk(T, S, 1)
    loop = hb.new_loop()
    writer = hb.CollectWriter(block_after=1)  # greeting goes out, the next reply's drain never returns
    reader = st.HookReader([(5, st.Line("SYST\r\n"), None)], eof=False)
    raised = None
    try:
        loop.run_until_complete(server.dispatcher(reader, writer))
    except Exception as e:  # noqa: BLE001
        raised = e
    end = loop.time()
    hb.path_done("c16_ctrl", "")
    if raised is not None:
        hb.KEY = "raised"
        return False
    exp = min(5 + S, 5 + T)
    if writer.closed_at != exp or end != exp:
        hb.KEY = "control-write-time"
        return False
    return clean(server, loop, writer)
