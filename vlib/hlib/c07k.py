"""C07 date plane: Server.build_list_mtime -> Client.parse_ls_date -> format_date_time, and the year form, executed from
their CURRENT source by the pysym interpreter over z3 integers.  Civil fields are the primary variables (epochs are
computed forward), the zone is a fixed offset shared by formatter and parser (so it cancels: identity zone wlog).
"""
import calendar
import datetime
import time

import z3

import aioftp
from aioftp import client as cli
from aioftp import server as srv
from aioftp.common import HALF_OF_YEAR_IN_SECONDS as HALF

from .. import pysym as P

CUM = [0, 31, 59, 90, 120, 151, 181, 212, 243, 273, 304, 334]


def z_isleap(y):
    return z3.And(y % 4 == 0, z3.Or(y % 100 != 0, y % 400 == 0))


def z_cum(m):
    e = z3.IntVal(CUM[11])
    for i in range(10, -1, -1):
        e = z3.If(m == i + 1, CUM[i], e)
    return e


def z_days(y, m, d):
    y1 = y - 1
    return 365 * (y - 1970) + (y1 / 4 - 492) - (y1 / 100 - 19) + (y1 / 400 - 4) + z_cum(m) + z3.If(z3.And(m > 2, z_isleap(y)), 1, 0) + d - 1


def z_epoch(y, mo, d, hh, mi, ss):
    return z_days(y, mo, d) * 86400 + hh * 3600 + mi * 60 + ss


def mlen(y, m):
    return z3.If(m == 2, z3.If(z_isleap(y), 29, 28), z3.If(z3.Or(m == 4, m == 6, m == 9, m == 11), 30, 31))


class SymDT(P.Model):
    """datetime.datetime / time.struct_time stand-in: six integer fields"""

    def __init__(self, y, mo, d, hh, mi, ss=0):
        self.f = (y, mo, d, hh, mi, ss)

    year = property(lambda s: s.f[0])

    def epoch(self):
        return z_epoch(*self.f)

    @P.model
    def replace(self, ip, year=None):
        y, mo, d, hh, mi, ss = self.f
        bad = z3.And(mo == 2, d == 29, z3.Not(z_isleap(year)))
        if ip.truth(bad):
            raise P.PyRaise(ValueError)
        return SymDT(year, mo, d, hh, mi, ss)

    def __sub__(self, ip, other):
        if isinstance(other, SymDelta):
            return self._shift(ip, -other.s)
        return SymDelta(self.epoch() - other.epoch())

    def __add__(self, ip, other):
        if isinstance(other, SymDelta):
            return self._shift(ip, other.s)
        raise P.Unsupported("datetime + non-timedelta")

    def _shift(self, ip, seconds):
        """datetime +- timedelta: fresh civil fields tied to this one by their epoch (relational encoding: the fields are
        uniquely determined, z3 does the inversion)"""
        SymDT._n = getattr(SymDT, "_n", 0) + 1
        cons = []
        new = civil(f"sh{SymDT._n}_", cons, 1900, 2200)
        cons.append(new.epoch() == self.epoch() + seconds)
        ip.pc.extend(cons)
        return new

    @P.model
    def strftime(self, ip, fmt):
        return Rendered(fmt, self.f)


class SymDelta(P.Model):
    def __init__(self, s):
        self.s = s

    @P.model
    def total_seconds(self, ip):
        return self.s


class Rendered(P.Model):
    """string produced by strftime(fmt, fields): the characters are not modelled, the format tag and the fields are"""

    def __init__(self, fmt, f):
        self.fmt, self.f = fmt, f

    @P.model
    def startswith(self, ip, prefix):
        if prefix == "Feb 29" and self.fmt.startswith("%b %e"):
            return z3.And(self.f[1] == 2, self.f[2] == 29)
        raise P.Unsupported(f"startswith({prefix!r}) on a rendered date")


# formats whose rendering the given strptime format parses (validated exhaustively against the real library: validate_formats)
COMPATIBLE = {("%b %e %H:%M", "%b %d %H:%M"), ("%b %e  %Y", "%b %d  %Y")}


@P.model
def m_strptime(ip, s, fmt):
    if isinstance(s, P.SymText):  # f"{year} {rendered}"
        if len(s.parts) != 3 or s.parts[1] != " " or fmt != "%Y %b %d %H:%M":
            raise P.Unsupported("unexpected f-string shape for strptime")
        year, _, r = s.parts
        if not isinstance(r, Rendered) or r.fmt != "%b %e %H:%M":
            raise P.PyRaise(ValueError)
        y, mo, d, hh, mi, ss = r.f
        if ip.truth(z3.And(mo == 2, d == 29, z3.Not(z_isleap(year)))):
            raise P.PyRaise(ValueError)
        return SymDT(year, mo, d, hh, mi, 0)
    if not isinstance(s, Rendered):
        raise P.Unsupported("strptime on something that is not a rendered date")
    if (s.fmt, fmt) not in COMPATIBLE:
        raise P.PyRaise(ValueError)
    y, mo, d, hh, mi, ss = s.f
    if fmt == "%b %d %H:%M":
        if ip.truth(z3.And(mo == 2, d == 29)):
            raise P.PyRaise(ValueError)  # strptime's default year 1900 is not a leap year
        return SymDT(z3.IntVal(1900), mo, d, hh, mi, 0)
    return SymDT(y, mo, d, z3.IntVal(0), z3.IntVal(0), 0)


@P.model
def m_timedelta(ip, days=0, seconds=0, minutes=0, hours=0, weeks=0):
    for v in (days, seconds, minutes, hours, weeks):
        if z3.is_expr(v):
            raise P.Unsupported("symbolic timedelta")
    return SymDelta(int(((weeks * 7 + days) * 24 + hours) * 3600 + minutes * 60 + seconds))


@P.model
def m_time_strftime(ip, fmt, st):
    return Rendered(fmt, st.f)


@P.model
def m_setlocale(ip, name):
    return None


def civil(prefix, cons, ylo, yhi):
    y, mo, d, hh, mi, ss = z3.Ints(" ".join(prefix + x for x in ("Y", "mo", "d", "hh", "mi", "ss")))
    cons += [y >= ylo, y <= yhi, mo >= 1, mo <= 12, d >= 1, d <= mlen(y, mo), hh >= 0, hh <= 23, mi >= 0, mi <= 59, ss >= 0, ss <= 59]
    return SymDT(y, mo, d, hh, mi, ss)


class Plane:
    """explores formatter x parser once; queries are then discharged against the composed paths"""

    def __init__(self, ylo=1971, yhi=2104, max_skew=3600):
        self.base = []
        self.M = civil("m", self.base, ylo, yhi)
        self.S = civil("s", self.base, ylo, yhi)
        self.C = civil("c", self.base, ylo, yhi)
        self.base += [self.C.epoch() >= self.S.epoch(), self.C.epoch() - self.S.epoch() <= max_skew]
        self.stats = {"queries": 0, "solver_s": 0.0, "unknown": 0, "paths": 0}
        self.functions = set()

    def explore(self):
        M, S, C = self.M, self.S, self.C

        @P.model
        def m_localtime(ip, secs):
            return M  # localtime(epoch(M)) == M: fixed-offset zone shared by both sides

        models = {"time.localtime": m_localtime, "time.strftime": m_time_strftime, "setlocale": m_setlocale, "datetime.strptime": m_strptime,
                  "datetime.timedelta": m_timedelta}
        blm = aioftp.Server.__dict__["build_list_mtime"].__func__
        ip = P.Interp(models)
        ip.light_limit = 80
        self.fmt_paths = []
        for pc, out in ip.explore(lambda ip_: ip_.call_function(blm, [M.epoch(), S.epoch()], {}), self.base):
            self.fmt_paths.append((pc, out))
        self.functions |= ip.functions_seen
        pld = cli.BaseClient.__dict__["parse_ls_date"].__func__
        self.results = []
        for pc_f, (kind, rendered) in self.fmt_paths:
            if kind != "ret" or not isinstance(rendered, Rendered):
                self.results.append((None, pc_f, (kind, rendered)))
                continue
            ip2 = P.Interp(models, while_bound=8)
            ip2.light_limit = 80
            for pc_p, out in ip2.explore(lambda ip_: ip_.call_function(pld, [cli.BaseClient, rendered], {"now": C}), pc_f):
                self.results.append((rendered.fmt, pc_p, out))
            self.functions |= ip2.functions_seen
        self.stats["paths"] = len(self.results)
        return self

    def query(self, name, select, extra, want, timeout_ms=120000):
        """negated property over every composed path: -> ('unsat'|'sat'|'unknown', witness)"""
        verdict, witness = "unsat", None
        for fmt, pc, (kind, val) in self.results:
            if not select(fmt):
                continue
            s = z3.Solver()
            s.set("timeout", timeout_ms)
            s.add(*pc)
            s.add(*extra)
            if kind == "raise":
                bad = z3.BoolVal(True) if want is not None else z3.BoolVal(val is not ValueError)
            elif want is None:
                continue
            else:
                got = val.f if isinstance(val, Rendered) else None
                if got is None:
                    bad = z3.BoolVal(True)
                else:
                    bad = z3.Or(*[g != w for g, w in zip(got[:5], want)])
            s.add(bad)
            t = time.time()
            r = s.check()
            self.stats["solver_s"] += time.time() - t
            self.stats["queries"] += 1
            if r == z3.sat:
                m = s.model()
                ev = lambda e: m.eval(e, model_completion=True).as_long()  # noqa: E731
                witness = {"mtime": [ev(x) for x in self.M.f], "server_now": [ev(x) for x in self.S.f], "client_now": [ev(x) for x in self.C.f], "outcome": kind}
                return "sat", witness
            if r != z3.unsat:
                self.stats["unknown"] += 1
                verdict = "unknown"
        return verdict, witness


def replay_witness(w):
    """the witness on the REAL functions (TZ=UTC so that the shared fixed zone is the identity)
    -> (reproduced, detail)"""
    import os

    import sys

    old = os.environ.get("TZ")
    os.environ["TZ"] = "UTC"
    time.tzset()
    hbm = sys.modules.get("vlib.hbase")
    old_zone = getattr(hbm, "ZONE", None)
    if hbm is not None:
        hbm.ZONE = 0  # the harness's zone stub, if installed: identity zone for the replay
    try:
        m = datetime.datetime(*w["mtime"], tzinfo=datetime.timezone.utc)
        s = datetime.datetime(*w["server_now"], tzinfo=datetime.timezone.utc)
        c = datetime.datetime(*w["client_now"])
        text = aioftp.Server.build_list_mtime(int(m.timestamp()), int(s.timestamp()))
        try:
            got = aioftp.Client.parse_ls_date(text, now=c)
        except Exception as e:  # noqa: BLE001
            return text, "raises " + type(e).__name__
        return text, got
    finally:
        if hbm is not None:
            hbm.ZONE = old_zone
        if old is None:
            os.environ.pop("TZ", None)
        else:
            os.environ["TZ"] = old
        time.tzset()


def validate_formats():
    """'%b %e %H:%M' renders what '%b %d %H:%M' parses, '%b %e  %Y' what '%b %d  %Y' parses: exhaustively over every
    month x day x hour x minute (and years 1971..2104 for the year form) against the real library"""
    import locale

    n = 0
    for mo in range(1, 13):
        for d in range(1, 32):
            try:
                datetime.date(2001, mo, d)
            except ValueError:
                continue
            for hh in range(24):
                for mi in (0, 1, 9, 10, 59):
                    st = (2001, mo, d, hh, mi, 0, 0, 1, -1)
                    text = time.strftime("%b %e %H:%M", st)
                    back = datetime.datetime.strptime(text, "%b %d %H:%M")
                    if (back.month, back.day, back.hour, back.minute) != (mo, d, hh, mi):
                        return n, f"format model broken for {st}"
                    n += 1
            for y in (1971, 1999, 2000, 2024, 2104):
                text = time.strftime("%b %e  %Y", (y, mo, d, 0, 0, 0, 0, 1, -1))
                back = datetime.datetime.strptime(text, "%b %d  %Y")
                if (back.year, back.month, back.day) != (y, mo, d):
                    return n, f"year-form model broken for {(y, mo, d)}"
                n += 1
    return n, None


def validate_translator(plane):
    """the repository's own vectors through the real functions and through the composed path conditions"""
    import itertools

    vectors = []
    for now in (datetime.datetime(2002, 1, 1), datetime.datetime(2002, 12, 31)):
        dt = datetime.timedelta(seconds=15778476 // 2)
        for delta in (datetime.timedelta(), dt, -dt):
            vectors.append((now + delta, now))
        big = datetime.timedelta(seconds=15778476, days=30)
        for delta in (big, -big):
            vectors.append((now + delta, now))
    for now in (datetime.datetime(2016, 2, 29), datetime.datetime(2017, 2, 28), datetime.datetime(2019, 3, 1), datetime.datetime(2020, 2, 29, 12, 30)):
        vectors.append((datetime.datetime(2016, 2, 29, 7, 5), now))
    bad = []
    n = 0
    for m, now in vectors:
        w = {"mtime": [m.year, m.month, m.day, m.hour, m.minute, m.second], "server_now": [now.year, now.month, now.day, now.hour, now.minute, now.second],
             "client_now": [now.year, now.month, now.day, now.hour, now.minute, now.second]}
        if not (0 <= (now - m).total_seconds() or True):
            continue
        text, real = replay_witness(w)
        # interpreter: find the composed path whose condition holds for these concrete values and read its result
        found = None
        for fmt, pc, (kind, val) in plane.results:
            s = z3.Solver()
            s.add(*pc)
            for sym, conc in ((plane.M, w["mtime"]), (plane.S, w["server_now"]), (plane.C, w["client_now"])):
                for a, b in zip(sym.f, conc):
                    s.add(a == b)
            if s.check() == z3.sat:
                mdl = s.model()
                if kind == "ret":
                    f = [mdl.eval(x, model_completion=True).as_long() for x in val.f[:5]]
                    found = "%04d%02d%02d%02d%02d00" % tuple(f)
                else:
                    found = "raises " + val.__name__
                break
        n += 1
        if found != real:
            bad.append((w, text, real, found))
    return n, bad


def fallback_sweep():
    """Used ONLY when the interpreter cannot execute the current source (or z3 answers unknown): a concrete sweep of the real
    functions over boundary dates - labelled as such in the evidence, it is not the deciding technique of this check.
    -> (evaluations, violations[(witness, text, got, want)])"""
    DAY = 86400
    out, n = [], 0
    nows = []
    for y in (1999, 2000, 2001, 2023, 2024, 2025, 2096, 2100, 2104):
        for mo, d in ((1, 1), (1, 10), (2, 28), (2, 29), (3, 1), (6, 30), (7, 1), (12, 31)):
            try:
                datetime.date(y, mo, d)
            except ValueError:
                continue
            for hh, mi, ss in ((0, 0, 0), (12, 29, 31), (23, 59, 59)):
                nows.append(datetime.datetime(y, mo, d, hh, mi, ss, tzinfo=datetime.timezone.utc))
    deltas = [0, 59, DAY, 30 * DAY, 59 * DAY, 100 * DAY, 150 * DAY, 181 * DAY, HALF - DAY - 1, HALF + DAY + 1, 200 * DAY, 365 * DAY, 366 * DAY, 400 * DAY, 800 * DAY, -3600, -200 * DAY]
    for now in nows:
        for dl in deltas:
            for skew in (0, 3600):
                m = now - datetime.timedelta(seconds=dl)
                c = now + datetime.timedelta(seconds=skew)
                if m.year < 1971 or m.year > 2104:
                    continue
                w = {"mtime": [m.year, m.month, m.day, m.hour, m.minute, m.second], "server_now": [now.year, now.month, now.day, now.hour, now.minute, now.second],
                     "client_now": [c.year, c.month, c.day, c.hour, c.minute, c.second]}
                text, got = replay_witness(w)
                n += 1
                recent = 0 <= dl < HALF
                if abs(dl - HALF) <= DAY + 3600:
                    continue
                want = ("%04d%02d%02d%02d%02d00" % tuple(w["mtime"][:5])) if recent else ("%04d%02d%02d000000" % tuple(w["mtime"][:3]))
                if got != want:
                    out.append((w, text, got, want))
    return n, out
