"""C10 harness library: connection limits are exact and slots are always returned."""
import asyncio

import aioftp

from .. import hbase as hb
from .. import step as st

LS = st.install_listeners()

SCRIPTS = [
    [],
    ["USER u1"],
    ["USER u1", "PASS p1"],
    ["USER u1", "PASS bad"],
    ["USER u1", "USER u2"],
    ["USER u1", "USER u1"],
    ["USER nobody"],
    ["USER u1", "USER nobody"],
    ["USER u2", "PASS p2", "USER u1"],
    ["USER u1", "PASS p1", "PWD", "USER u2"],
]
EXITS = ["quit", "eof", "cancel", "idle", "raise"]


async def _boom(connection, rest):
    raise RuntimeError("injected handler failure")


def mk(lim_s, m, v, lim1, m1, v1, lim2, m2, v2, idle=None):
    u1 = aioftp.User("u1", "p1", base_path="/srv", maximum_connections=m1 if lim1 else None)
    u2 = aioftp.User("u2", "p2", base_path="/srv", maximum_connections=m2 if lim2 else None)
    server = st.make_server([u1, u2], maximum_connections=m if lim_s else None, idle_timeout=idle)
    if lim_s:
        server.available_connections.value = v
    ac = server.user_manager.available_connections
    if lim1:
        ac[u1].value = v1
    if lim2:
        ac[u2].value = v2
    server.commands_mapping["boom"] = _boom
    return server, u1, u2


def counters(server, u1, u2):
    ac = server.user_manager.available_connections
    return (server.available_connections.value, ac[u1].value, ac[u2].value)


def attached_after(line, cur, lim, vals):
    """reference: which user the session is attached to after a USER line, given current counter values"""
    return cur


def session(si, exit_i, k, lim_s, m, v, lim1, m1, v1, lim2, m2, v2):
    hb.KEY = ""
    hb.reset_logs()
    idle = 50 if EXITS[exit_i] == "idle" else None
    server, u1, u2 = mk(lim_s, m, v, lim1, m1, v1, lim2, m2, v2, idle)
    start = counters(server, u1, u2)
    lines = list(SCRIPTS[si])
    ex = EXITS[exit_i]
    if ex == "quit":
        lines.append("QUIT")
    elif ex == "raise":
        lines.append("BOOM")
    # reference bookkeeping: attached user and expected counter values before each line
    obs = []

    def watch(res):
        obs.append(counters(server, u1, u2))

    hooks = {i: watch for i in range(len(lines))}
    loop = hb.new_loop()
    cancelled = {"done": False}
    task_box = {}
    if ex == "cancel":
        def on_iter(lp, n):
            if n == k and not cancelled["done"] and "t" in task_box:
                cancelled["done"] = True
                task_box["t"].cancel()
        loop.on_iteration = on_iter
    if ex == "idle":
        reader_eof = False
    else:
        reader_eof = True
    # run
    res = st.StepResult()
    writer = hb.CollectWriter()
    items = []
    for i, l in enumerate(lines):
        items.append((10, st.Line(l + "\r\n"), (lambda i=i: obs.append(counters(server, u1, u2)))))
    reader = st.HookReader(items, eof=reader_eof)
    reader.final_hook = lambda: obs.append(counters(server, u1, u2))
    reader.final_gap = 10
    raised = None
    try:
        t = loop.create_task(server.dispatcher(reader, writer))
        task_box["t"] = t
        loop.run_until_complete(t)
    except asyncio.CancelledError:
        pass
    except hb.vloop.StepBudgetExceeded:
        raise
    except Exception as e:  # noqa: BLE001
        raised = e
    loop.run_idle()
    end = counters(server, u1, u2)
    codes = [c for c, _, _ in hb.reply_codes(writer)]
    hb.path_done("c10_session", ex + ":" + ",".join(codes))
    if raised is not None:
        hb.KEY = "dispatcher-raised"
        return False
    # accounting itself never fails: the only exception the dispatcher may log is the peer's EOF / the injected one
    for lv, fmt, args in hb.SERVER_LOG.records:
        if lv == "exception" and (not args or args[-1] not in ("ConnectionResetError", "RuntimeError", "TimeoutError")):
            hb.KEY = "accounting-exception"
            return False
        if lv == "exception" and args and args[-1] == "RuntimeError" and ex != "raise":
            hb.KEY = "accounting-exception"
            return False
    # (1) every slot returned exactly once
    if end != start:
        hb.KEY = "slots-not-returned"
        return False
    # (2) admission: refused with 421 iff the server counter was 0, and then nothing is counted
    refused = lim_s and v == 0
    if refused:
        if (codes[:1] != ["421"] and not (ex == "cancel" and not codes)) or any(o != start for o in obs):
            hb.KEY = "admission"
            return False
        return True
    if not codes or codes[0] != "220":
        if not (ex == "cancel"):
            hb.KEY = "greeting"
            return False
    # (3) counters between events: server slot held, user slot of the attached user held, 530 exactly at the limit
    exp_s = (start[0] - 1) if lim_s else None
    cur = 0  # attached user: 0 none, 1 u1, 2 u2
    replies = codes[1:]
    ri = 0
    for i, l in enumerate(lines):
        if i < len(obs):
            o = obs[i]
            want1 = (start[1] - (1 if cur == 1 else 0)) if lim1 else None
            want2 = (start[2] - (1 if cur == 2 else 0)) if lim2 else None
            if o != (exp_s, want1, want2):
                hb.KEY = "counter-between-events"
                return False
        # advance the reference
        if l.startswith("USER "):
            name = l[5:]
            cur = 0
            tgt = 1 if name == "u1" else 2 if name == "u2" else 0
            if tgt == 1:
                full = lim1 and start[1] == 0
            elif tgt == 2:
                full = lim2 and start[2] == 0
            else:
                full = False
            want_code = "530" if (tgt == 0 or full) else "331"
            if not full and tgt:
                cur = tgt
            if ri < len(replies):
                if replies[ri] != want_code:
                    hb.KEY = "user-reply"
                    return False
        ri += 1
    if len(obs) > len(lines):
        o = obs[len(lines)]
        want1 = (start[1] - (1 if cur == 1 else 0)) if lim1 else None
        want2 = (start[2] - (1 if cur == 2 else 0)) if lim2 else None
        if o != (exp_s, want1, want2):
            hb.KEY = "counter-between-events"
            return False
    return True


def two_sessions(m, hold_first):
    """two real sessions against a server-wide limit m (1 or 2) with one slot already held by somebody else when m == 2"""
    hb.KEY = ""
    hb.reset_logs()
    server, u1, u2 = mk(True, m, 1, False, 0, 0, False, 0, 0)
    loop = hb.new_loop()
    w1, w2 = hb.CollectWriter(), hb.CollectWriter()
    r1 = st.HookReader([(10, st.Line("SYST\r\n"), None), (hold_first, st.Line("QUIT\r\n"), None)], eof=True)
    r2 = st.HookReader([(20, st.Line("SYST\r\n"), None), (10, st.Line("QUIT\r\n"), None)], eof=True)

    async def both():
        await asyncio.gather(server.dispatcher(r1, w1), server.dispatcher(r2, w2))

    loop.run_until_complete(both())
    c1 = [c for c, _, _ in hb.reply_codes(w1)]
    c2 = [c for c, _, _ in hb.reply_codes(w2)]
    ok = c1 == ["220", "215", "221"] and c2 == ["421"] and server.available_connections.value == 1
    hb.path_done("c10_two", ",".join(c1 + c2))
    return ok
