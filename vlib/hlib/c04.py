"""C04 harness library: read/write permissions follow the nearest-ancestor rule on the resolved path."""
import pathlib

import aioftp

from .. import hbase as hb
from .. import step as st
from . import model as M

LS = st.install_listeners()


def drive(coro):
    try:
        coro.send(None)
    except StopIteration as e:
        return e.value
    coro.close()
    raise RuntimeError("coroutine suspended")


def segs(p):
    return [x for x in p.split("/") if x]


def governing(entries, target):
    """independent longest-prefix rule: entries = [(path, readable, writable)]; first listed wins among equals; default allow"""
    best, best_len = None, -1
    t = segs(target)
    for e in entries:
        p = segs(e[0])
        if len(p) <= len(t) and t[: len(p)] == p and len(p) > best_len:
            best, best_len = e, len(p)
    return best if best is not None else ("/", True, True)


def wellformed(p):
    """normalised absolute path over the alphabet {/, a, b}"""
    if len(p) == 0 or p[0] != "/":
        return False
    if len(p) > 1 and p[-1] == "/":
        return False
    prev = ""
    for ch in p:
        if ch not in "/ab":
            return False
        if ch == "/" and prev == "/":
            return False
        prev = ch
    return True


def get_permissions(p1, r1, w1, p2, r2, w2, with_root, rr, rw, target):
    hb.KEY = ""
    entries = []
    if with_root:
        entries.append(("/", rr, rw))
    entries += [(p1, r1, w1), (p2, r2, w2)]
    perms = [aioftp.Permission(p, readable=r, writable=w) for p, r, w in entries]
    user = aioftp.User(permissions=perms)
    got = drive(user.get_permissions(target))
    want = governing(entries, target)
    return bool(got.readable) == bool(want[1]) and bool(got.writable) == bool(want[2])


READ = ("cwd", "cdup", "list", "mlsd", "mlst", "retr")
WRITE = ("mkd", "rmd", "dele", "rnfr", "rnto", "stor", "appe")
TREE = {"/srv": "dir", "/srv/a": "dir", "/srv/a/f": b"hello", "/srv/a/d": "dir", "/srv/a/d/g": b"g", "/srv/zz": b"", "/srv/e": "dir"}
ARGS = ["a/f", "/a/d/../f", "zz", "/a/d/g", "../a/d", "a", "/", "//a/d/g", "a/new", "/a/d/new", "e", "a//d/./g", "new", "/a/d/../../zz", "d", "//a/f", "///a/d", "//zz", "//"]
MUTATORS = ("mkdir", "rmdir", "unlink", "rename", "write")


def handler(verb, ai, cwd_i, r0, w0, r1, w1, r2, w2):
    """one step of the real dispatcher; permissions: '/' (r0,w0), '/a' (r1,w1), '/a/d' (r2,w2)"""
    hb.KEY = ""
    entries = [("/", r0, w0), ("/a", r1, w1), ("/a/d", r2, w2)]
    perms = [aioftp.Permission(p, readable=r, writable=w) for p, r, w in entries]
    user = aioftp.User("bob", None, base_path="/srv", permissions=perms)
    server = st.make_server([user])
    st.build_tree(server, TREE)
    LS.started.clear()
    cwd = ["/", "/a", "/a/d"][cwd_i]
    pre = dict(user=user, logged=True, cwd=cwd, passive=True, rename_from="/zz" if verb == "rnto" else None, data=([b"xy"], None))
    before = st.tree_paths(server)
    hb.SpyPathIO.reset()
    arg = ARGS[ai]
    line = verb.upper() + ((" " + arg) if (arg and verb != "cdup") else "")
    res = st.dispatcher_session(server, pre, [line], listeners=LS)
    head, per = st.per_command_replies(res)
    target = M.parent(cwd) if verb == "cdup" else M.resolve(cwd, arg)
    gov = governing(entries, target)
    needed = gov[1] if verb in READ else gov[2]
    replies = per[0] if per else []
    codes = [c for c, _, _ in replies]
    hb.path_done("c04_" + verb, ",".join(codes))
    if len(res.states) < 2:
        hb.KEY = "session-ended"
        return False
    if not needed:
        ok = codes == ["550"] and st.tree_paths(server) == before and res.states[1]["cwd"] == cwd
        ok = ok and not any(name in MUTATORS for name in hb.SpyPathIO.log)
        ok = ok and not any(name == "open" for name in hb.SpyPathIO.log)
        if not ok:
            hb.KEY = "not-refused"
        return ok
    if any(text == "permission denied" for _, _, text in replies):
        hb.KEY = "refused-although-allowed"
        return False
    return True
