"""C08 harness library: file and directory names mean the same thing in every command and reply."""
import pathlib

import aioftp
from aioftp import client as cli

from .. import hbase as hb
from .. import step as st
from . import c06 as F

LS = st.install_listeners()
ALPH = ['"', " ", "a", "é", "-", ";", "=", ">", "%", "\\", "2", "😀", "'", "."]


def valid_name(name):
    """what the line protocol can carry as one path segment"""
    if len(name) == 0 or name in (".", ".."):
        return False
    for ch in name:
        if ch in "/\x00\r\n":
            return False
    return name == name.rstrip()


class _Recorded(Exception):
    pass


def drive(coro):
    try:
        coro.send(None)
    except StopIteration as e:
        return e.value
    coro.close()
    raise RuntimeError("coroutine suspended")


METHODS = ["change_directory", "make_directory_cmd", "remove_directory", "remove_file", "rename_from", "rename_to", "upload_stream", "append_stream", "download_stream", "stat", "list_mlsd", "list_list"]


def built_command(method, name):
    """the command line the REAL client method builds for this name (its `command` / `get_stream` replaced by recorders)"""
    c = aioftp.Client(path_io_factory=aioftp.MemoryPathIO)
    rec = []

    async def command(text=None, *a, **k):
        rec.append(text)
        raise _Recorded()

    def get_stream(text, *a, **k):
        rec.append(text)
        raise _Recorded()

    c.command = command
    c.get_stream = get_stream
    try:
        if method == "change_directory":
            drive(c.change_directory(name))
        elif method == "make_directory_cmd":
            async def exists(p):
                return False
            c.exists = exists
            drive(c.make_directory(name, parents=False))
        elif method == "remove_directory":
            drive(c.remove_directory(name))
        elif method == "remove_file":
            drive(c.remove_file(name))
        elif method == "rename_from":
            drive(c.rename(name, "x"))
        elif method == "rename_to":
            async def command2(text=None, *a, **k):
                rec.append(text)
                if len(rec) == 2:
                    raise _Recorded()
                return ("350", [""])
            c.command = command2
            drive(c.rename("x", name))
        elif method == "upload_stream":
            c.upload_stream(name)
        elif method == "append_stream":
            c.append_stream(name)
        elif method == "download_stream":
            c.download_stream(name)
        elif method == "stat":
            drive(c.stat(name))
        elif method in ("list_mlsd", "list_list"):
            async def gs(text, *a, **k):
                rec.append(text)
                raise _Recorded()
            c.get_stream = gs
            lister = c.list(name, raw_command="MLSD" if method == "list_mlsd" else "LIST")
            lister.__aiter__()
            drive(lister.__anext__())
    except _Recorded:
        pass
    return rec[-1] if rec else None


def command_carries_name(mi, name):
    """client builder -> line -> Server.parse_command -> get_paths: the server addresses exactly /<name>"""
    hb.KEY = ""
    method = METHODS[hb.conc(mi, 0, len(METHODS) - 1)]
    text = built_command(method, name)
    if text is None:
        hb.KEY = "no-command"
        return False
    server = aioftp.Server([aioftp.User(base_path="/srv")], path_io_factory=aioftp.MemoryPathIO)
    stream = F.ListStream([st.Line(text + "\r\n")])
    verb, rest = drive(server.parse_command(stream))
    user = aioftp.User(base_path="/srv")
    conn = aioftp.Connection(current_directory=pathlib.PurePosixPath("/"), user=user)
    real, virt = aioftp.Server.get_paths(conn, rest)
    ok = virt.name == name and len(virt.parts) == 2 and real == pathlib.PurePosixPath("/srv") / name
    if not ok:
        hb.KEY = "name-changed:" + method
    return ok


def quote257(s):
    return '"' + s.replace('"', '""') + '"'


def parse_directory(name, tail_i):
    """RFC 959 quoting decoded by the real client parser: 257 "<dir with doubled quotes>" [text]"""
    tail = ["", " created", " is the current directory"][hb.conc(tail_i, 0, 2)]
    got = cli.BaseClient.parse_directory_response(" " + quote257("/" + name) + tail)
    return str(got) == "/" + name


def word(i, j, k):
    return "".join(ALPH[x] for x in (i, j, k) if x >= 0)


def pwd_roundtrip(i, j, k, name=None):
    """the REAL server: CWD into the directory, PWD; the reply goes through write_response and the real client's
    parse_response / get_current_directory: the same directory comes back"""
    hb.KEY = ""
    if name is None:
        name = word(hb.conc(i, -1, len(ALPH) - 1), hb.conc(j, -1, len(ALPH) - 1), hb.conc(k, -1, len(ALPH) - 1))
    if not valid_name(name):
        return True
    user = aioftp.User("bob", None, base_path="/srv")
    server = st.make_server([user])
    st.build_tree(server, {"/srv": "dir", "/srv/" + name: "dir"})
    pre = dict(user=user, logged=True, cwd="/")
    res = st.dispatcher_session(server, pre, ["CWD " + name, "PWD"], listeners=LS)
    head, per = st.per_command_replies(res)
    if [c for c, _, _ in per[0]] != ["250"] or res.states[1]["cwd"] != "/" + name:
        hb.KEY = "cwd"
        return False
    raw = [(c + sep + t + "\r\n").encode("utf-8") for c, sep, t in per[1]]
    client = aioftp.Client(path_io_factory=aioftp.MemoryPathIO)
    client.stream = F.ListStream(raw)
    got = drive(client.get_current_directory())
    hb.path_done("c08_pwd", "")
    if str(got) != "/" + name:
        hb.KEY = "pwd"
        return False
    return True


def mlsx_name(name, is_dir):
    """server build_mlsx_string -> client parse_mlsx_line"""
    from . import c07 as G

    server, c, path = G.mk_conn(is_dir, name, 3, hb.FIXED_NOW - 50)
    line = G.drive(server.build_mlsx_string(c, path))
    client = aioftp.Client(path_io_factory=aioftp.MemoryPathIO)
    got, info = client.parse_mlsx_line(line + "\r\n")
    return str(got) == name and got.name == name


def list_name(i, j, k, is_dir, name=None):
    """server build_list_string -> client parse_list_line (the LIST fallback)"""
    from . import c07 as G

    hb.KEY = ""
    if name is None:
        name = word(hb.conc(i, -1, len(ALPH) - 1), hb.conc(j, -1, len(ALPH) - 1), hb.conc(k, -1, len(ALPH) - 1))
    if not valid_name(name):
        return True
    server, c, path = G.mk_conn(is_dir, name, 3, hb.FIXED_NOW - 50)
    line = G.drive(server.build_list_string(c, path))
    client = aioftp.Client(path_io_factory=aioftp.MemoryPathIO)
    got, info = client.parse_list_line((line + "\r\n").encode("utf-8"))
    if str(got) != name:
        hb.KEY = "leading-space" if name != name.lstrip() and str(got) == name.lstrip() else "name-changed"
        return False
    return True


TREES_SEEN = {}

# names on which Unicode normalisation (NFC / NFD / NFKC) is not the identity, and their already-normalised relatives
UNI = ["e\u0301", "\u00e9", "\u212b", "\u00c5", "A\u030a", "\ufb01", "\u1e9b\u0323", "\U0001d15e", "x\u0301", "\u0130", "\u00df", "I\u0307"]


def uni_names(ui, which):
    """the Mode A conditions on names that are sensitive to Unicode normalisation / case folding"""
    name = UNI[hb.conc(ui, 0, len(UNI) - 1)]
    which = hb.conc(which, 0, 4)
    if which == 0:
        return pwd_roundtrip(0, 0, 0, name=name)
    if which == 1:
        return session_names(0, 0, 0, name=name)
    if which == 2:
        return list_name(0, 0, 0, True, name=name) and list_name(0, 0, 0, False, name=name)
    if which == 3:
        hb.KEY = "mlsx"
        return mlsx_name(name, True) and mlsx_name(name, False)
    hb.KEY = "stored-name"
    return stored_name(name)


def stored_name(name):
    """MKD / STOR under a name: the backend tree holds exactly that name afterwards"""
    user = aioftp.User("bob", None, base_path="/srv")
    server = st.make_server([user])
    st.build_tree(server, {"/srv": "dir"})
    pre = dict(user=user, logged=True, cwd="/", passive=True, data=([b"xyz"], None))
    res = st.dispatcher_session(server, pre, ["MKD " + name, "STOR " + name + "/" + name], listeners=LS)
    return st.tree_paths(server) == {"/srv": "dir", "/srv/" + name: "dir", "/srv/" + name + "/" + name: b"xyz"}


def session_names(i, j, k, name=None):
    """a whole life cycle under one name through the real dispatcher: MKD, CWD, PWD, CDUP, RNFR/RNTO, MLST, STOR, RETR,
    DELE, RMD - every command addresses the object created under that name"""
    hb.KEY = ""
    if name is None:
        name = word(hb.conc(i, -1, len(ALPH) - 1), hb.conc(j, -1, len(ALPH) - 1), hb.conc(k, -1, len(ALPH) - 1))
    if not valid_name(name):
        return True
    user = aioftp.User("bob", None, base_path="/srv")
    server = st.make_server([user])
    st.build_tree(server, {"/srv": "dir"})
    pre = dict(user=user, logged=True, cwd="/", passive=True, data=([b"xyz"], None))
    lines = ["MKD " + name, "CWD " + name, "PWD", "CDUP", "STOR " + name + "/" + name, "MLST " + name + "/" + name, "RNFR " + name + "/" + name, "RNTO " + name + "2",
             "DELE " + name + "2", "RMD " + name]
    res = st.dispatcher_session(server, pre, lines, listeners=LS)
    head, per = st.per_command_replies(res)
    codes = [[c for c, sep, _ in r if sep == " "] for r in per[: len(lines)]]
    want = [["257"], ["250"], ["257"], ["250"], ["150", "226"], ["250"], ["350"], ["250"], ["250"], ["250"]]
    hb.path_done("c08_session", "")
    if codes != want:
        hb.KEY = "life-cycle"
        return False
    # what was created is stored under exactly that name (observed when CDUP was delivered, i.e. after MKD / CWD / PWD)
    if res.states[3]["cwd"] != "/" + name:
        hb.KEY = "stored-name"
        return False
    if st.tree_paths(server) != {"/srv": "dir"}:
        hb.KEY = "tree"
        return False
    return True
