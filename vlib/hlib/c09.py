"""C09 harness library: client tree operations (upload, download, recursive list, remove) are faithful.

The REAL client code (upload, download, list, remove, make_directory, exists, stat, is_file, is_dir, upload_stream,
download_stream, remove_file, remove_directory) runs on top of a model FTP peer that replaces only the two lowest
primitives, Client.command and Client.get_stream.  (The wire level of those is C05/C06/C08's subject.)
"""
import io
import pathlib

import aioftp
from aioftp import client as cli
from aioftp.common import async_enterable

from .. import hbase as hb
from . import model as M

DESTS = ["", "x", "x/y", "/abs", "x/", ".", "/", "a/../b", "deep/er/est", "/c/inside", "foo", "x/foo"]
# local source trees (relative to /local): name -> 'dir' | bytes
SHAPES = [
    {"foo": "dir"},
    {"foo": "dir", "foo/a": b"A"},
    {"foo": "dir", "foo/a": b"A", "foo/e": b""},
    {"foo": "dir", "foo/d": "dir"},
    {"foo": "dir", "foo/d": "dir", "foo/d/b": b"BB", "foo/a": b"A"},
    {"foo": "dir", "foo/d": "dir", "foo/d/dd": "dir", "foo/d/dd/c": b"CCC", "foo/d/e": "dir"},
    {"foo": b"just a file"},
    {"foo": "dir", "foo/a b": b"sp", "foo/d": "dir", "foo/d/a": b"same name below"},
    {"foo": "dir", "foo/foo": "dir", "foo/foo/foo": b"deep", "foo/x": b"X"},  # a directory that contains an entry of its own name
]


class Peer:
    """model FTP peer: a tree, a working directory, and the replies aioftp's own server gives"""

    def __init__(self, tree, cwd="/", legacy=False):
        self.tree = dict(tree)
        self.cwd = cwd
        self.log = []
        self.legacy = legacy  # a server without MLST / MLSD: the client falls back to LIST and to listing the parent for stat

    def ls_line(self, p):
        t = self.tree.get(p, "dir" if p == "/" else None)
        name = p.rsplit("/", 1)[1] if p != "/" else ""
        if t == "dir":
            return f"drwxr-xr-x   2 ftp ftp 4096 Jan  1  2020 {name}"
        return f"-rw-r--r--   1 ftp ftp {len(t)} Jan  1  2020 {name}"

    def r(self, p):
        return M.resolve(self.cwd, str(p))

    def facts(self, p):
        t = self.tree.get(p, "dir" if p == "/" else None)
        name = p.rsplit("/", 1)[1] if p != "/" else ""
        if t == "dir":
            return f"Type=dir;Size=0; {name}"
        return f"Type=file;Size={len(t)}; {name}"

    def reply(self, code, info, expected):
        c = cli.Code(code)
        expected = (expected,) if isinstance(expected, str) else tuple(expected)
        if expected and not any(c.matches(m) for m in expected):
            raise aioftp.StatusCodeError(expected, c, info)
        return c, info

    async def command(self, command=None, expected_codes=(), wait_codes=(), censor_after=None):
        self.log.append(command)
        verb, _, arg = command.partition(" ")
        verb = verb.upper()
        t = self.tree
        if verb == "MLST" and not self.legacy:
            p = self.r(arg)
            if not M.exists(t, p):
                return self.reply("550", ["path does not exists"], expected_codes)
            return self.reply("250", ["-start", " " + self.facts(p), " end"], expected_codes)
        if verb == "MKD":
            p = self.r(arg)
            if M.exists(t, p):
                return self.reply("550", ["path already exists"], expected_codes)
            segs = [x for x in p.split("/") if x]
            cur = ""
            for s in segs:
                cur += "/" + s
                if M.is_file(t, cur):
                    return self.reply("451", ["file system error"], expected_codes)
                t.setdefault(cur, "dir")
            return self.reply("257", [""], expected_codes)
        if verb == "RMD":
            p = self.r(arg)
            if not M.is_dir(t, p) or p == "/":
                return self.reply("550", ["path is not a directory"], expected_codes)
            if M.children(t, p):
                return self.reply("451", ["file system error"], expected_codes)
            t.pop(p)
            return self.reply("250", [""], expected_codes)
        if verb == "DELE":
            p = self.r(arg)
            if not M.is_file(t, p):
                return self.reply("550", ["path is not a file"], expected_codes)
            t.pop(p)
            return self.reply("250", [""], expected_codes)
        if verb == "CWD":
            p = self.r(arg)
            if not M.is_dir(t, p):
                return self.reply("550", [""], expected_codes)
            self.cwd = p
            return self.reply("250", [""], expected_codes)
        if verb == "PWD":
            return self.reply("257", ['"' + self.cwd + '"'], expected_codes)
        return self.reply("502", ["not implemented"], expected_codes)

    def get_stream(self, command, *a, offset=0, **k):
        peer = self

        @async_enterable
        async def make():
            peer.log.append(command)
            verb, _, arg = command.partition(" ")
            verb = verb.upper()
            p = peer.r(arg)
            t = peer.tree
            if verb == "LIST" and peer.legacy:
                if not M.exists(t, p):
                    raise aioftp.StatusCodeError(("1xx",), cli.Code("550"), ["path does not exists"])
                kids = M.children(t, p) if M.is_dir(t, p) else []  # as aioftp's server: LIST of a file lists nothing
                return Stream(lines=[(peer.ls_line(k) + "\r\n").encode("utf-8") for k in kids])
            if verb == "MLSD" and not peer.legacy:
                if not M.exists(t, p):
                    raise aioftp.StatusCodeError(("1xx",), cli.Code("550"), ["path does not exists"])
                kids = M.children(t, p) if M.is_dir(t, p) else []
                return Stream(lines=[(peer.facts(k) + "\r\n").encode("utf-8") for k in kids])
            if verb == "RETR":
                if not M.is_file(t, p):
                    raise aioftp.StatusCodeError(("1xx",), cli.Code("550"), ["path is not a file"])
                return Stream(data=t[p])
            if verb == "STOR":
                if not M.is_dir(t, M.parent(p)):
                    raise aioftp.StatusCodeError(("1xx",), cli.Code("550"), ["path unreachable"])
                if M.is_dir(t, p):
                    return Stream(sink=lambda b: None, fail=True)
                return Stream(sink=lambda b: t.__setitem__(p, b))
            raise aioftp.StatusCodeError(("1xx",), cli.Code("502"), ["not implemented"])

        return make()


class Stream:
    def __init__(self, lines=None, data=None, sink=None, fail=False):
        self.lines = list(lines or [])
        self.data = data
        self.pos = 0
        self.sink = sink
        self.buf = b""
        self.fail = fail
        self.finished = False

    async def readline(self):
        return self.lines.pop(0) if self.lines else b""

    async def read(self, n=-1):
        if n is None or n < 0:
            n = len(self.data)
        out = self.data[self.pos:self.pos + n]
        self.pos += len(out)
        return out

    def iter_by_block(self, count=8192):
        from aioftp.common import AsyncStreamIterator

        return AsyncStreamIterator(lambda: self.read(count))

    async def write(self, b):
        self.buf += bytes(b)

    async def finish(self, *a, **k):
        if self.finished:
            return
        self.finished = True
        if self.fail:
            raise aioftp.StatusCodeError(("2xx",), cli.Code("451"), ["file system error"])
        if self.sink is not None:
            self.sink(self.buf)

    def close(self):
        pass

    async def __aenter__(self):
        return self

    async def __aexit__(self, et, e, tb):
        if e is None:
            await self.finish()


def mk_client(remote_tree, cwd, local_tree, legacy=False):
    c = aioftp.Client(path_io_factory=aioftp.MemoryPathIO)
    peer = Peer(remote_tree, cwd, legacy)
    c.command = peer.command
    c.get_stream = peer.get_stream
    pio = c.path_io
    for p, v in local_tree.items():
        node_parent = pio.get_node(pathlib.PurePosixPath(p).parent)
        from aioftp.pathio import Node

        if v == "dir":
            node_parent.content.append(Node("dir", pathlib.PurePosixPath(p).name, content=[]))
        else:
            node_parent.content.append(Node("file", pathlib.PurePosixPath(p).name, content=io.BytesIO(v)))
    return c, peer


def local_snapshot(pio):
    out = {}

    def walk(nodes, prefix):
        for n in nodes:
            p = prefix + "/" + n.name if prefix != "/" else "/" + n.name
            if n.type == "dir":
                out[p] = "dir"
                walk(n.content, p)
            else:
                out[p] = bytes(n.content.getbuffer())

    walk(pio.fs[0].content, "/")
    return out


def with_parents(tree, p):
    """p and all its ancestors as directories"""
    cur = ""
    for s in [x for x in p.split("/") if x]:
        cur += "/" + s
        tree.setdefault(cur, "dir")


REMOTE0 = {"/c": "dir", "/keep": "dir", "/keep/me": b"untouched"}


def upload(shape_i, dest_i, write_into, cwd_c, legacy=False):
    hb.KEY = ""
    legacy = bool(legacy)
    shape = SHAPES[hb.conc(shape_i, 0, len(SHAPES) - 1)]
    dest = DESTS[hb.conc(dest_i, 0, len(DESTS) - 1)]
    cwd = "/c" if cwd_c else "/"
    local = {"/local": "dir"}
    for k, v in shape.items():
        local["/local/" + k] = v
    if legacy and ".." in dest:
        return True  # '..' inside a REMOTE path on a LIST-only server: stat falls back to looking '..' up in a listing, which no server lists (outside the claim)
    c, peer = mk_client(REMOTE0, cwd, local, legacy)
    loop = hb.new_loop()
    try:
        loop.run_until_complete(c.upload("/local/foo", dest, write_into=write_into, block_size=2))
    except aioftp.StatusCodeError:
        # legitimate only when the documented target collides with something that is in the way
        hb.KEY = "refused"
        base = M.resolve(cwd, dest)
        target = base if write_into else M.resolve(base, "foo")
        collides = M.is_file(REMOTE0, target) or (shape["foo"] != "dir" and M.is_dir(REMOTE0, target)) or target == "/" and shape["foo"] != "dir"
        return collides
    # the documented image: destination/source-name/... by default, destination/... with write_into
    base = M.resolve(cwd, dest)
    root = base if write_into else M.resolve(base, "foo")
    want = dict(REMOTE0)
    if shape["foo"] == "dir":
        with_parents(want, root)
        for k, v in shape.items():
            if k != "foo":
                want[root.rstrip("/") + "/" + k[len("foo/"):]] = v
    else:
        with_parents(want, M.parent(root))
        want[root] = shape["foo"]
    hb.path_done("c09_upload", "")
    if peer.tree != want:
        hb.KEY = "remote-tree"
        return False
    return True


def _image(want, shape, cwd, dest, write_into):
    base = M.resolve(cwd, dest)
    root = base if write_into else M.resolve(base, "foo")
    if shape["foo"] == "dir":
        with_parents(want, root)
        for k, v in shape.items():
            if k != "foo":
                want[root.rstrip("/") + "/" + k[len("foo/"):]] = v
    else:
        with_parents(want, M.parent(root))
        want[root] = shape["foo"]
    return root


REL_DESTS = ["x", "x/y", "", "deep/er"]


def upload_history(shape_i, dest_i, write_into, variant, legacy=False):
    """two operations on ONE client session (the client must not remember what it did before):
    variant 0: upload to a relative destination from /c, change the working directory to /d, upload to the same relative destination;
    variant 1: upload, remove the uploaded tree under its absolute spelling, upload again;
    variant 2: upload, then download what was uploaded into a fresh local directory: same structure and contents"""
    hb.KEY = ""
    legacy = bool(legacy)
    shape = SHAPES[hb.conc(shape_i, 0, len(SHAPES) - 1)]
    dest = REL_DESTS[hb.conc(dest_i, 0, len(REL_DESTS) - 1)]
    variant = hb.conc(variant, 0, 2)
    if not write_into and False:
        return True
    local = {"/local": "dir"}
    for k, v in shape.items():
        local["/local/" + k] = v
    remote0 = dict(REMOTE0)
    remote0["/d"] = "dir"
    c, peer = mk_client(remote0, "/c", local, legacy)
    loop = hb.new_loop()
    want = dict(remote0)
    root1 = _image(want, shape, "/c", dest, write_into)
    if root1 in ("/c", "/d", "/"):
        return True  # write_into with an empty destination: the image is the working directory itself (covered by upload())

    async def run():
        await c.upload("/local/foo", dest, write_into=write_into, block_size=2)
        if variant == 0:
            await c.change_directory("/d")
            await c.upload("/local/foo", dest, write_into=write_into, block_size=2)
        elif variant == 1:
            await c.remove(root1)
            await c.upload("/local/foo", dest, write_into=write_into, block_size=2)
        else:
            await c.download(root1, "/back", write_into=True, block_size=2)

    try:
        loop.run_until_complete(run())
    except (aioftp.StatusCodeError, aioftp.PathIOError):
        hb.KEY = "history-refused"
        return False
    if variant == 0:
        _image(want, shape, "/d", dest, write_into)
    hb.path_done("c09_history", "")
    if peer.tree != want:
        hb.KEY = "history-remote-tree"
        return False
    if variant == 2:
        got = local_snapshot(c.path_io)
        exp = dict(local)
        if shape["foo"] == "dir":
            exp["/back"] = "dir"
            for k, v in shape.items():
                if k != "foo":
                    exp["/back/" + k[len("foo/"):]] = v
        else:
            exp["/back"] = shape["foo"]
        if got != exp:
            hb.KEY = "history-local-tree"
            return False
    return True


def download(shape_i, dest_i, write_into, cwd_c, legacy=False):
    hb.KEY = ""
    legacy = bool(legacy)
    shape = SHAPES[hb.conc(shape_i, 0, len(SHAPES) - 1)]
    dest = DESTS[hb.conc(dest_i, 0, len(DESTS) - 1)]
    if ".." in dest:
        return True  # how '..' in a LOCAL path resolves is the local filesystem's business, not the client's
    cwd = "/c" if cwd_c else "/"
    remote = dict(REMOTE0)
    for k, v in shape.items():
        remote["/c/src/" + k] = v
    remote["/c/src"] = "dir"
    local0 = {"/w": "dir", "/w/keep": b"local"}
    c, peer = mk_client(remote, cwd, local0, legacy)
    c.path_io.cwd = pathlib.PurePosixPath("/w")
    loop = hb.new_loop()
    src = "src/foo" if cwd_c else "/c/src/foo"
    try:
        loop.run_until_complete(c.download(src, dest, write_into=write_into, block_size=2))
    except (aioftp.StatusCodeError, aioftp.PathIOError):
        hb.KEY = "refused"
        base = M.resolve("/w", dest)
        target = base if write_into else M.resolve(base, "foo")
        return M.is_file(local0, target) or (shape["foo"] != "dir" and (M.is_dir(local0, target) or target == "/"))
    base = M.resolve("/w", dest)
    root = base if write_into else M.resolve(base, "foo")
    want = dict(local0)
    if shape["foo"] == "dir":
        with_parents(want, root)
        for k, v in shape.items():
            if k != "foo":
                want[root.rstrip("/") + "/" + k[len("foo/"):]] = v
    else:
        with_parents(want, M.parent(root))
        want[root] = shape["foo"]
    hb.path_done("c09_download", "")
    got = local_snapshot(c.path_io)
    if got != want:
        hb.KEY = "local-tree"
        return False
    if peer.tree != remote:
        hb.KEY = "remote-changed"
        return False
    return True


def list_recursive(shape_i, cwd_c, arg_i, legacy=False):
    hb.KEY = ""
    legacy = bool(legacy)
    shape = SHAPES[hb.conc(shape_i, 0, len(SHAPES) - 1)]
    cwd = "/c" if cwd_c else "/"
    remote = dict(REMOTE0)
    for k, v in shape.items():
        remote["/c/" + k] = v
    c, peer = mk_client(remote, cwd, {}, legacy)
    loop = hb.new_loop()
    arg = (["foo", "/c/foo", "./foo/"] if cwd_c else ["c/foo", "/c/foo", "c//foo"])[hb.conc(arg_i, 0, 2)]
    res = loop.run_until_complete(c.list(arg, recursive=True)._to_list())
    got = sorted((M.resolve(cwd, str(p)), info["type"]) for p, info in res)
    want = sorted((("/c/" + k), "dir" if v == "dir" else "file") for k, v in shape.items() if k != "foo") if shape["foo"] == "dir" else []
    hb.path_done("c09_list", "")
    if got != want or len(res) != len(want):
        hb.KEY = "listing"
        return False
    # each entry's path is usable as given: relative to the working directory the listing was asked from
    for p, info in res:
        if not M.exists(remote, M.resolve(cwd, str(p))):
            hb.KEY = "path-not-usable"
            return False
    return True


def remove(shape_i, cwd_c, arg_i, legacy=False):
    hb.KEY = ""
    legacy = bool(legacy)
    shape = SHAPES[hb.conc(shape_i, 0, len(SHAPES) - 1)]
    cwd = "/c" if cwd_c else "/"
    remote = dict(REMOTE0)
    for k, v in shape.items():
        remote["/c/" + k] = v
    remote["/c/foo2"] = "dir"
    remote["/c/foo2/sibling"] = b"stays"
    c, peer = mk_client(remote, cwd, {}, legacy)
    loop = hb.new_loop()
    arg = (["foo", "/c/foo", "./foo"] if cwd_c else ["c/foo", "/c/foo", "c//foo"])[hb.conc(arg_i, 0, 2)]
    loop.run_until_complete(c.remove(arg))
    want = {k: v for k, v in remote.items() if not (k == "/c/foo" or k.startswith("/c/foo/"))}
    hb.path_done("c09_remove", "")
    if peer.tree != want:
        hb.KEY = "remove"
        return False
    return True
