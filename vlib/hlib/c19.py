"""C19 harness library: malformed input from the peer is contained on both sides."""
import asyncio
import pathlib

import aioftp
from aioftp import client as cli

from .. import hbase as hb
from .. import step as st
from . import c06 as F

LS = st.install_listeners()
ALPH_L = ["-", "d", "l", "r", "w", "x", " ", "1", "M", "A", "/", ":", "<", ">", "a", "\t", "é", ",", "P", "0", ".", "=", ";", "\"", "(", ")", "|"]
TEMPLATES = [
    "-rw-r--r-- 1 none none 12 Jan  1 00:00 name",
    "drwxr-xr-x 2 user group 4096 Nov 14  2023 dir name",
    "lrwxrwxrwx 1 u g 7 Feb 29 12:30 link -> /target/",
    "01/02/2023  03:45 PM    <DIR>          some dir",
    "01/02/2023  03:45 AM         1,234 file.txt",
    "-rwsr-sr-t 1 0 0 0 Jul  4 23:59 s",
]
MLSX_T = ["Type=file;Size=3;Modify=20230101000000; name", "type=dir; d", ";;; x", "Size=1;Type=file name with space"]
PASV_T = ["Entering Passive Mode (127,0,0,1,4,1).", "(1,2,3,4,5,6)", "227 ok (10,0,0,1,255,255)"]
EPSV_T = ["Entering Extended Passive Mode (|||6446|)", "(!!!80!)", "x (|||1|) y (|||2|)"]


def word(alph, idx):
    return "".join(alph[i] for i in idx if i >= 0)


def well_typed(res):
    if not (isinstance(res, tuple) and len(res) == 2):
        return False
    p, info = res
    return isinstance(p, pathlib.PurePosixPath) and isinstance(info, dict) and all(isinstance(k, str) for k in info)


def list_line(text):
    """Client.parse_list_line on arbitrary text: the documented ValueError or a well-typed result - nothing else"""
    client = aioftp.Client(path_io_factory=aioftp.MemoryPathIO)
    try:
        res = client.parse_list_line(text.encode("utf-8"))
    except ValueError:
        return True
    return well_typed(res)


def list_line_alpha(i, j, k, m):
    return list_line(word(ALPH_L, [hb.conc(x, -1, len(ALPH_L) - 1) for x in (i, j, k, m)]))


def mutate(template, p, i, j, cut):
    r = word(ALPH_L, [i, j])
    return template[:p] + r + template[p + cut:]


def list_line_mutation(ti, p, i, j, cut):
    t = TEMPLATES[hb.conc(ti, 0, len(TEMPLATES) - 1)]
    p, cut = hb.conc(p, 0, 60), hb.conc(cut, 0, 3)
    return list_line(mutate(t, min(p, len(t)), hb.conc(i, -1, len(ALPH_L) - 1), hb.conc(j, -1, len(ALPH_L) - 1), cut))


def list_line_bytes(b0, b1, b2, n):
    """undecodable byte sequences"""
    client = aioftp.Client(path_io_factory=aioftp.MemoryPathIO)
    data = bytes([hb.conc(b0, 0, 255), hb.conc(b1, 0, 255), hb.conc(b2, 0, 255)][: hb.conc(n, 0, 3)])
    try:
        res = client.parse_list_line(b"-rw-r--r-- 1 a b 1 Jan  1 00:00 " + data)
    except ValueError:
        return True
    return well_typed(res)


def mlsx_line(text):
    client = aioftp.Client(path_io_factory=aioftp.MemoryPathIO)
    res = client.parse_mlsx_line(text)
    return well_typed(res) and all(isinstance(v, str) for v in res[1].values())


def mlsx_mutation(ti, p, i, j, cut):
    t = MLSX_T[hb.conc(ti, 0, len(MLSX_T) - 1)]
    p, cut = hb.conc(p, 0, 50), hb.conc(cut, 0, 3)
    return mlsx_line(mutate(t, min(p, len(t)), hb.conc(i, -1, len(ALPH_L) - 1), hb.conc(j, -1, len(ALPH_L) - 1), cut))


def passive_answer(kind, ti, p, i, j, cut):
    """PASV / EPSV / 257 answers: a well-typed result or an ordinary exception (never a hang, never a non-Exception)"""
    kind = hb.conc(kind, 0, 2)
    tt = [PASV_T, EPSV_T, ['"/a""b" created', 'no quotes', '"unterminated', '""']][kind]
    t = tt[hb.conc(ti, 0, len(tt) - 1)]
    p, cut = hb.conc(p, 0, 45), hb.conc(cut, 0, 3)
    text = mutate(t, min(p, len(t)), hb.conc(i, -1, len(ALPH_L) - 1), hb.conc(j, -1, len(ALPH_L) - 1), cut)
    fn = [cli.BaseClient.parse_pasv_response, cli.BaseClient.parse_epsv_response, cli.BaseClient.parse_directory_response][kind]
    try:
        res = fn(text)
    except Exception:  # noqa: BLE001  ordinary exceptions are the contract here
        return True
    if kind == 2:
        return isinstance(res, pathlib.PurePosixPath)
    ip, port = res
    return (ip is None or isinstance(ip, str)) and isinstance(port, int)


RESP_LINES = [b"250 ok\r\n", b"250-first\r\n", b" body\r\n", b"251 other\r\n", b"\xff\xfe\r\n", b"\r\n", b"abc\r\n", b"2\r\n", b"250\r\n", b"250-\r\n", b"-250 x\r\n", b"25\xc3\r\n", b"   \r\n"]


def response_lines(n, a, b, c, d):
    """parse_response on arbitrary line sequences followed by EOF: returns or raises an ordinary, documented exception;
    reads at most n + 1 lines (no endless loop)"""
    n = hb.conc(n, 0, 4)
    idx = [hb.conc(x, 0, len(RESP_LINES) - 1) for x in (a, b, c, d)][:n]
    client = aioftp.Client(path_io_factory=aioftp.MemoryPathIO)
    stream = F.ListStream([RESP_LINES[i] for i in idx])
    reads = {"n": 0}
    orig = stream.readline

    async def counting():
        reads["n"] += 1
        if reads["n"] > n + 2:
            raise RuntimeError("parse_response keeps reading after end of stream")
        return await orig()

    stream.readline = counting
    client.stream = stream
    try:
        code, info = F.drive(client.parse_response())
    except (aioftp.StatusCodeError, ConnectionResetError, UnicodeDecodeError):
        return True
    return isinstance(code, str) and isinstance(info, list) and all(isinstance(x, str) for x in info)


class DataStream:
    def __init__(self, lines):
        self.lines = list(lines)
        self.finished = False

    async def readline(self):
        return self.lines.pop(0) if self.lines else b""

    async def finish(self, *a, **k):
        self.finished = True


LISTINGS = [
    ["Type=cdir; .", "Type=pdir; ..", "Type=file;Size=1; f"],
    ["Type=dir; .", "Type=dir; ..", "Type=dir; d"],
    ["Type=dir; d"],  # a directory that contains a directory named like itself, for ever
    ["Type=file; f", "this line is not MLSx at all"],
    [],
]


def list_dots(li, recursive, as_list):
    """Client.list over hostile listings: '.' and '..' are skipped, recursion ends, a line that cannot be parsed is reported"""
    hb.KEY = ""
    li = hb.conc(li, 0, len(LISTINGS) - 1)
    client = aioftp.Client(path_io_factory=aioftp.MemoryPathIO)
    opened = []

    async def get_stream(command, *a, **k):
        opened.append(command)
        if len(opened) > 12:
            raise RuntimeError("listing recursion does not end")
        fmt = LISTINGS[li]
        if as_list:
            fmt = ["drwxr-xr-x 1 a b 0 Jan  1 00:00 " + l.split("; ", 1)[1] if l.startswith("Type=") and "dir" in l.split(";")[0] else
                   ("-rw-r--r-- 1 a b 1 Jan  1 00:00 " + l.split("; ", 1)[1] if l.startswith("Type=") else l) for l in fmt]
        if li in (1, 2) and len(opened) > 3:
            fmt = []
        return DataStream([(l + "\r\n").encode("utf-8") for l in fmt])

    client.get_stream = get_stream
    try:
        res = F.drive(client.list("top", recursive=recursive, raw_command="LIST" if as_list else "MLSD")._to_list())
    except ValueError:
        return li == 3 and as_list  # only the LIST parser may reject the garbage line; MLSx accepts any text as facts+name
    except RuntimeError:
        hb.KEY = "endless"
        return False
    if not all(F.__name__ and isinstance(p, pathlib.PurePosixPath) and isinstance(i, dict) for p, i in res):
        hb.KEY = "ill-typed"
        return False
    names = [str(p) for p, _ in res]
    if any(n.endswith("/.") or n.endswith("/..") or n in (".", "..") for n in names):
        hb.KEY = "dots-not-skipped"
        return False
    if li == 3 and as_list:
        hb.KEY = "unparsable-line-dropped"
        return False
    if li == 0 and names != ["top/f"]:
        hb.KEY = "entries"
        return False
    return True


GARBAGE = [b"\xff", b"\x00", b" ", b"a", b"\r", b"\xc3", b"\n", b"\xe2\x82", b"%", b"\x7f", b"-", b"1"]
VERBS = [b"", b"USER ", b"PASS ", b"CWD ", b"REST ", b"TYPE ", b"EPSV ", b"RETR ", b"STOR ", b"FOO ", b"PASV", b"LIST ", b"RNTO ", b"MKD "]


class RaisingReader(hb.ScriptReader):
    """the over-long line case: asyncio.StreamReader.readline raises ValueError (LimitOverrunError is converted to it)"""

    async def readline(self):
        item = await self._next_item()
        if item is None:
            return b""
        if item == b"<OVERLONG>":
            raise ValueError("Separator is not found, and chunk exceed the limit")
        return item


def server_garbage(vi, g0, g1, g2, mode, logged):
    """whatever one client sends, the server ends at most that session, releases it, and the other session goes on"""
    hb.KEY = ""
    hb.reset_logs()
    verb = VERBS[hb.conc(vi, 0, len(VERBS) - 1)]
    junk = b"".join(GARBAGE[i] for i in (hb.conc(g0, -1, len(GARBAGE) - 1), hb.conc(g1, -1, len(GARBAGE) - 1), hb.conc(g2, -1, len(GARBAGE) - 1)) if i >= 0)
    mode = hb.conc(mode, 0, 2)
    user = aioftp.User("bob", None, base_path="/srv")
    server = st.make_server([user])
    st.build_tree(server, {"/srv": "dir", "/srv/f": b"x"})
    LS.started.clear()
    loop = hb.new_loop()
    wa, wb = hb.CollectWriter(), hb.CollectWriter()
    line = verb + junk + (b"\r\n" if mode != 1 else b"")  # mode 1: the stream ends in the middle of a line
    items = [(10, b"USER bob\r\n" if logged else b"SYST\r\n"), (10, b"<OVERLONG>" if mode == 2 else line)]
    ra = RaisingReader(items, eof=True)
    rb = st.HookReader([(5, st.Line("USER bob\r\n"), None), (30, st.Line("PWD\r\n"), None), (10, st.Line("MLST f\r\n"), None), (10, st.Line("QUIT\r\n"), None)], eof=True)
    raised = []

    async def both():
        async def a():
            try:
                await server.dispatcher(ra, wa)
            except Exception as e:  # noqa: BLE001
                raised.append(e)
        await asyncio.gather(a(), server.dispatcher(rb, wb))

    try:
        loop.run_until_complete(both())
    except hb.vloop.Deadlock:
        hb.KEY = "hang"
        return False
    loop.run_idle()
    cb = [c for c, sep, _ in hb.reply_codes(wb) if sep == " "]
    hb.path_done("c19_server", ",".join(c for c, _, _ in hb.reply_codes(wa)))
    if raised:
        hb.KEY = "server-failed-as-a-whole"
        return False
    if not wa.closed or server.connections or LS.live():
        hb.KEY = "session-not-released"
        return False
    if cb != ["220", "230", "257", "250", "221"]:
        hb.KEY = "other-session-disturbed"
        return False
    if server.available_connections.value is not None:
        hb.KEY = "slots"
        return False
    return True
