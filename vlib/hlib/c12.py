"""C12 harness library: a session that ends - at any point, for any reason - releases everything it held."""
import asyncio

import aioftp
from aioftp import client as cli
from aioftp import server as srv

from .. import hbase as hb
from .. import simnet
from .. import step as st

PORTS = [7001, 7002]
TREE = {"/srv": "dir", "/srv/d": "dir", "/srv/d/f": b"0123456789", "/srv/d/g": b"g"}


async def s_list(c):
    await c.list("d")


async def s_upload(c):
    async with c.upload_stream("d/new") as s:
        await s.write(b"abc")
        await s.write(b"def")


async def s_download(c):
    async with c.download_stream("d/f") as s:
        async for _ in s.iter_by_block(3):
            pass


async def s_meta(c):
    await c.make_directory("d/x")
    await c.rename("d/g", "d/x/g")
    await c.remove("d/x")
    await c.change_directory("d")
    await c.get_current_directory()


async def s_mixed(c):
    await c.stat("d/f")
    async with c.append_stream("d/g", offset=1) as s:
        await s.write(b"zz")
    await c.command("PASV", "227")
    await c.command("EPSV", "229")


async def s_restart(c):
    async with c.upload_stream("d/g", offset=1) as s:
        await s.write(b"zz")
    async with c.download_stream("d/f", offset=2) as s:
        await s.read()


SCRIPTS = [s_list, s_upload, s_download, s_meta, s_mixed, s_restart]
CUTS = ["vanish", "close", "ctrl_reset"]  # ctrl_reset: only the control connection dies, data connections stay open and silent


def run(si, cut_i, k, pool, measure=False, lat=0):
    """real Client against the real Server over SimNet; at loop iteration k either every client transport vanishes or
    server.close() is called.  -> oracle verdict"""
    hb.KEY = ""
    si, cut_i, k = hb.conc(si, 0, len(SCRIPTS) - 1), hb.conc(cut_i, 0, 2), hb.conc(k, 0, 400)
    cut = CUTS[cut_i]
    loop = hb.new_loop()
    net = simnet.SimNet()
    srv.asyncio = st._AsyncioProxy(net)
    cli.open_connection = net.open_connection
    user = aioftp.User("bob", None, base_path="/srv")
    server = aioftp.Server([user], path_io_factory=hb.SpyPathIO, block_size=4, data_ports=PORTS if pool else None, wait_future_timeout=20)
    state = {"fired": False, "close_task": None, "client_done": False, "iters": 0}

    async def client_side():
        c = aioftp.Client(path_io_factory=aioftp.MemoryPathIO)
        try:
            await c.connect("10.0.0.1", 21)
            await c.login("bob", "x")
            await SCRIPTS[si](c)
            await c.quit()
        except (OSError, aioftp.StatusCodeError, asyncio.IncompleteReadError, EOFError):
            pass  # the cut is expected to break the client
        state["client_done"] = True

    async def main():
        await server.start("10.0.0.1", 21)
        st.build_tree(server, TREE)
        hb.SpyPathIO.reset(latency=lat)  # lat > 0: every backend call suspends for lat virtual ms, the cut can fall inside one
        state["armed"] = loop.iterations
        ct = asyncio.ensure_future(client_side())
        # wait until the cut has fired and everything has gone quiet, or the script finished
        while not (ct.done() or state["fired"]):
            await asyncio.sleep(1)
        if state["fired"] and cut in ("vanish", "ctrl_reset"):
            ct.cancel()
        if state["close_task"] is not None:
            await state["close_task"]
            # "closing the server always completes and leaves no task ... behind": checked the moment close() returns
            me = asyncio.current_task()
            state["tasks_at_close"] = [t for t in asyncio.all_tasks() if t is not me and t is not ct and not t.done()]
            state["transports_at_close"] = len(net.open_server_transports())
        state["iters"] = loop.iterations - state["armed"]
        await asyncio.sleep(100)  # > wait_future_timeout: everything that is going to happen has happened
        return ct

    def on_iter(lp, n):
        if state["fired"] or "armed" not in state or measure:
            return
        if n == state["armed"] + k:
            state["fired"] = True
            if cut == "vanish":
                net.client_vanish()
            elif cut == "ctrl_reset":
                net.dead_sides.add("client-ctrl")
                for t in list(net.transports):
                    if t.side == "client" and t.remote[1] == 21:
                        t.vanish()
            else:
                state["close_task"] = asyncio.ensure_future(server.close())

    loop.on_iteration = on_iter
    try:
        ct = loop.run_until_complete(main())
        loop.run_idle()
    except hb.vloop.Deadlock:
        hb.KEY = "hang"
        return False
    finally:
        srv.asyncio = st._AsyncioProxy(st.Listeners())
        hb.SpyPathIO.latency = 0
    if measure:
        return state["iters"]
    hb.path_done("c12", SCRIPTS[si].__name__ + ":" + cut + (":fired" if state["fired"] else ":late"))
    if state.get("tasks_at_close"):
        hb.KEY = "task-left-when-close-returned"
        return False
    if state.get("transports_at_close"):
        hb.KEY = "socket-left-when-close-returned"
        return False
    ok = _ledger(server, net, pool, server_closed=(state["close_task"] is not None))
    if not ok:
        return False
    # closing the server always completes and leaves nothing behind
    if state["close_task"] is None:
        try:
            loop.run_until_complete(server.close())
            loop.run_idle()
        except hb.vloop.Deadlock:
            hb.KEY = "close-hangs"
            return False
        if not _ledger(server, net, pool, server_closed=True):
            hb.KEY = "after-close:" + hb.KEY
            return False
    pend = [t for t in asyncio.all_tasks(loop) if not t.done() and t is not ct]
    if pend:
        hb.KEY = "task-left"
        return False
    return True


def _ledger(server, net, pool, server_closed):
    if server.connections:
        hb.KEY = "connection-table"
        return False
    left = [t for t in net.open_server_transports()]
    if left:
        hb.KEY = "server-transport-open"
        return False
    lst = net.open_listeners(exclude_ports=() if server_closed else (21,))
    if lst:
        hb.KEY = "listener-open"
        return False
    if hb.SpyPathIO.open_files() != 0:
        hb.KEY = "backend-file-open"
        return False
    if pool:
        have = sorted(p for _, p in list(server.available_data_ports._queue))
        if have != sorted(PORTS):
            hb.KEY = "port-pool"
            return False
    if server.available_connections.value is not None and server.available_connections.value != server.available_connections.maximum_value:
        hb.KEY = "slots"
        return False
    return True
