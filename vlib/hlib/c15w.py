"""C15 wiring harness (CrossHair): which throttle objects the real code attaches to which stream."""
import asyncio

import aioftp
from aioftp import client as cli
from aioftp import server as srv

from .. import hbase as hb
from .. import step as st

LS = st.install_listeners()


def _lim(t):
    return (t.read.limit, t.write.limit)


def server_wiring(sr, sw, cr, cw, ur, uw, pr, pw, relogin):
    """two sessions of user u1 (and one re-login as u2) on a server with symbolic limits at all four server-side levels"""
    hb.KEY = ""
    relogin = True if relogin else False  # decided once, here
    u1 = aioftp.User("u1", None, base_path="/srv", read_speed_limit=ur, write_speed_limit=uw, read_speed_limit_per_connection=pr, write_speed_limit_per_connection=pw)
    u2 = aioftp.User("u2", None, base_path="/srv", read_speed_limit=ur + 1, write_speed_limit=uw + 1)
    server = st.make_server([u1, u2], read_speed_limit=sr, write_speed_limit=sw, read_speed_limit_per_connection=cr, write_speed_limit_per_connection=cw)
    LS.started.clear()
    LS.fail = None
    loop = hb.new_loop()
    w1, w2 = hb.CollectWriter(), hb.CollectWriter()
    seen = {}
    datas = {}

    def grab(name, writer):
        def f():
            for key, c in server.connections.items():
                if key.writer is writer:
                    seen[name] = (key, dict(key.throttles), c)
        return f

    def connect(name, writer):
        def f():
            grab(name + "_before_data", writer)()
            mine = seen[name + "_before_data"][2].passive_server
            live = [(p, cb, l) for p, cb, l in LS.started if l is mine]
            dr, dw = hb.ScriptReader([], eof=True), hb.CollectWriter()
            asyncio.ensure_future(live[-1][1](dr, dw))
        return f

    def data_of(name, writer):
        def f():
            for key, c in server.connections.items():
                if key.writer is writer and "data_connection" in c and c["data_connection"].done():
                    datas[name] = c.data_connection
            grab(name, writer)()
        return f

    r1 = st.HookReader([(10, st.Line("USER u1\r\n"), None), (10, st.Line("PASV\r\n"), grab("s1_login", w1)), (10, st.Line("NOOP\r\n"), connect("s1", w1)),
                        (10, st.Line("USER u2\r\n" if relogin else "NOOP\r\n"), data_of("s1", w1)), (10, st.Line("NOOP\r\n"), grab("s1_after", w1))], eof=True)
    r2 = st.HookReader([(15, st.Line("USER u1\r\n"), None), (10, st.Line("EPSV\r\n"), grab("s2_login", w2)), (10, st.Line("NOOP\r\n"), connect("s2", w2)),
                        (10, st.Line("NOOP\r\n"), data_of("s2", w2))], eof=True)
    r1.final_gap = 60
    r2.final_gap = 2
    # a third session of the same user logs in AFTER the second one has gone, while the first one is still there
    w3 = hb.CollectWriter()
    r3 = st.HookReader([(75, st.Line("USER u1\r\n"), None), (5, st.Line("NOOP\r\n"), grab("s3_login", w3))], eof=True)
    r3.final_gap = 2

    async def both():
        await asyncio.gather(server.dispatcher(r1, w1), server.dispatcher(r2, w2), server.dispatcher(r3, w3))

    loop.run_until_complete(both())
    hb.path_done("c15_wiring", "")
    k1, t1, c1 = seen["s1_login"]
    k2, t2, c2 = seen["s2_login"]
    ok = set(t1) == {"server_global", "server_per_connection", "user_global", "user_per_connection"} == set(t2)
    if not ok:
        hb.KEY = "levels"
        return False
    # server-wide: one object for everybody; per connection: one object each, configured limits
    if t1["server_global"] is not server.throttle or t2["server_global"] is not server.throttle or _lim(server.throttle) != (sr, sw):
        hb.KEY = "server-global"
        return False
    if t1["server_per_connection"] is t2["server_per_connection"] or t1["server_per_connection"] is server.throttle_per_connection:
        hb.KEY = "per-connection-shared"
        return False
    if t1["server_per_connection"].read is t2["server_per_connection"].read or t1["server_per_connection"].write is t2["server_per_connection"].write:
        hb.KEY = "per-connection-shared"
        return False
    if _lim(t1["server_per_connection"]) != (cr, cw) or _lim(t2["server_per_connection"]) != (cr, cw):
        hb.KEY = "per-connection-limit"
        return False
    # per user: shared by the sessions of that user; per user connection: one each
    if t1["user_global"] is not t2["user_global"] or _lim(t1["user_global"]) != (ur, uw):
        hb.KEY = "user-global"
        return False
    # ... also by a session of that user that arrives after another one of them has left
    if "s3_login" not in seen:
        hb.KEY = "third-session"
        return False
    t3 = seen["s3_login"][1]
    s1_user_now = seen["s1_after"][1]["user_global"] if not relogin else None
    if not relogin and (t3.get("user_global") is not t1["user_global"] or s1_user_now is not t1["user_global"]):
        hb.KEY = "user-global-not-shared-with-later-session"
        return False
    if t3.get("server_global") is not server.throttle or t3.get("server_per_connection") is t1["server_per_connection"]:
        hb.KEY = "third-session-server-levels"
        return False
    if t1["user_per_connection"] is t2["user_per_connection"] or t1["user_per_connection"].read is t2["user_per_connection"].read:
        hb.KEY = "user-per-connection-shared"
        return False
    if _lim(t1["user_per_connection"]) != (pr, pw) or _lim(t2["user_per_connection"]) != (pr, pw):
        hb.KEY = "user-per-connection-limit"
        return False
    # the data stream of a session uses exactly the session's throttles (all levels, same objects)
    for name, key in (("s1", k1), ("s2", k2)):
        d = datas.get(name)
        if d is None:
            hb.KEY = "no-data-connection"
            return False
        tb = key.throttles  # the control stream's own mapping: every level, same objects, also after a later re-USER
        if set(d.throttles) != set(tb) or any(d.throttles[x] is not tb[x] for x in tb):
            hb.KEY = "data-stream-throttles"
            return False
    if relogin:
        ka, ta, ca = seen["s1_after"]
        if ta["user_global"] is t2["user_global"] or _lim(ta["user_global"]) != (ur + 1, uw + 1):
            hb.KEY = "re-user"
            return False
        if ta["server_global"] is not server.throttle or ta["server_per_connection"] is not t1["server_per_connection"]:
            hb.KEY = "re-user-server-levels"
            return False
    return True


def client_wiring(r, w):
    """the client's single limit pair is shared by its control stream and every data stream"""
    from .. import simnet

    hb.KEY = ""
    loop = hb.new_loop()
    net = simnet.SimNet()
    srv.asyncio = st._AsyncioProxy(net)
    cli.open_connection = net.open_connection
    server = aioftp.Server([aioftp.User("bob", None, base_path="/srv")], path_io_factory=hb.SpyPathIO)
    out = {}

    async def main():
        await server.start("10.0.0.1", 21)
        st.build_tree(server, {"/srv": "dir", "/srv/f": b"x"})
        c = aioftp.Client(path_io_factory=aioftp.MemoryPathIO, read_speed_limit=r, write_speed_limit=w)
        await c.connect("10.0.0.1", 21)
        await c.login("bob", "x")
        out["ctl"] = dict(c.stream.throttles)
        out["client"] = c.throttle
        s = await c.download_stream("f")
        out["data"] = dict(s.throttles)
        await s.read()
        await s.finish()
        await c.quit()
        await server.close()

    try:
        loop.run_until_complete(main())
    finally:
        srv.asyncio = st._AsyncioProxy(LS)
    hb.path_done("c15_client", "")
    t = out["client"]
    ok = list(out["ctl"].values()) == [t] and list(out["data"].values()) == [t] and out["ctl"]["_"] is out["data"]["_"]
    return ok and (t.read.limit, t.write.limit) == (r, w)
