"""C19 auxiliary (native, NOT a solver verdict): the client's parsers answer - value or exception - in bounded time.

A hostile peer may send a long run of one character where a short field is expected; a parser that backtracks
exponentially on it never answers and, being synchronous, blocks the whole event loop: the property's "returns or raises,
never hangs" fails without any exception to observe.  The solver cannot see running time, so this is measured: every
probe input runs in a child process under a deadline; a probe that does not come back, or that takes more than
SLOW_S seconds for a 64-character run, is reported with a replay script.

python -m vlib.hlib.c19n child <parser> <progress-file>     (the child: runs the probes of one parser)
python -m vlib.hlib.c19n replay <parser> <hex-input>        (replay: exit 1 if the parser needs more than DEADLINE_S)
"""
import os
import subprocess
import sys
import time

RUN = 64
RUN_CHARS = "1 ,;=\"(-.aé\t|"
SLOW_S = 2.0
DEADLINE_S = 20.0

TEMPLATES = {
    "parse_pasv_response": ["Entering Passive Mode (127,0,0,1,19,136).", "listen socket created (10,0,0,1,4,1)"],
    "parse_epsv_response": ["Entering Extended Passive Mode (|||6446|)", "listen socket created (|||40001|)"],
    "parse_directory_response": [' "/a/b" is the current directory', ' "a""b"'],
    "parse_mlsx_line": ["Type=file;Size=3;Modify=20200101000000; name.txt", "type=dir;modify=20200101000000; d"],
    "parse_list_line": ["-rw-r--r--   1 ftp ftp 12 Jan  1  2020 name.txt", "drwxr-xr-x   2 ftp ftp 4096 Mar 10 03:00 d", "01-01-20  10:00AM       <DIR>          d"],
    "parse_ls_date": ["Jan  1  2020", "Mar 10 03:00"],
    "parse_unix_mode": ["rwxr-xr-x"],
    "parse_response": ["250-start\r\n facts; name\r\n250 end\r\n", "227 ok\r\n"],
}


def _call(parser, text):
    import aioftp
    from aioftp import client as cli

    if parser in ("parse_pasv_response", "parse_epsv_response", "parse_directory_response", "parse_unix_mode"):
        return getattr(cli.BaseClient, parser)(text)
    if parser == "parse_ls_date":
        return cli.BaseClient.parse_ls_date(text)
    c = aioftp.Client(path_io_factory=aioftp.MemoryPathIO)
    if parser == "parse_mlsx_line":
        return c.parse_mlsx_line(text + "\r\n")
    if parser == "parse_list_line":
        return c.parse_list_line((text + "\r\n").encode("utf-8"))
    if parser == "parse_response":
        class S:
            def __init__(self, data):
                self.lines = data.splitlines(keepends=True)

            async def readline(self):
                return self.lines.pop(0) if self.lines else b""

        c.stream = S(text.encode("utf-8"))
        co = c.parse_response()
        try:
            co.send(None)
        except StopIteration as e:
            return e.value
        co.close()
        return None
    raise KeyError(parser)


def probes(parser):
    out = []
    for t in TEMPLATES[parser]:
        positions = sorted(set(list(range(0, len(t) + 1, max(1, len(t) // 12))) + [len(t)]))
        for p in positions:
            for ch in RUN_CHARS:
                out.append(t[:p] + ch * RUN + t[p:])
                out.append(t[:p] + ch * RUN + "x")
    return out


def child(parser, progress):
    with open(progress, "w", buffering=1) as f:
        for i, text in enumerate(probes(parser)):
            f.write(f"S {i}\n")
            t0 = time.perf_counter()
            try:
                _call(parser, text)
            except Exception:  # noqa: BLE001  raising is a legitimate answer here; which exception is the solver-side conditions' subject
                pass
            f.write(f"D {i} {time.perf_counter() - t0:.3f}\n")
    return 0


def run_all(workdir):
    """-> (number of probes, [violations])"""
    os.makedirs(workdir, exist_ok=True)
    procs = {}
    env = dict(os.environ)
    for parser in TEMPLATES:
        prog = os.path.join(workdir, f"c19n_{parser}.progress")
        procs[parser] = (subprocess.Popen([sys.executable, "-m", "vlib.hlib.c19n", "child", parser, prog], env=env, stdout=subprocess.DEVNULL, stderr=subprocess.DEVNULL), prog)
    n, bad = 0, []
    deadline = time.time() + DEADLINE_S * 3
    for parser, (p, prog) in procs.items():
        try:
            p.wait(timeout=max(1.0, deadline - time.time()))
            hung = False
        except subprocess.TimeoutExpired:
            p.kill()
            p.wait()
            hung = True
        started, slow = -1, []
        try:
            for ln in open(prog):
                parts = ln.split()
                if parts[0] == "S":
                    started = int(parts[1])
                elif parts[0] == "D" and float(parts[2]) > SLOW_S:
                    slow.append((int(parts[1]), float(parts[2])))
        except OSError:
            pass
        allp = probes(parser)
        n += len(allp)
        if hung and 0 <= started < len(allp):
            bad.append({"parser": parser, "input": allp[started], "what": f"{parser} did not answer within the deadline ({DEADLINE_S * 3:.0f} s for the whole batch) on a {RUN}-character run"})
        elif p.returncode not in (0, None) and not hung:
            bad.append({"parser": parser, "input": allp[max(started, 0)], "what": f"{parser}: the probe process died (exit {p.returncode})"})
        for i, secs in slow[:2]:
            bad.append({"parser": parser, "input": allp[i], "what": f"{parser} needed {secs:.1f} s for one line with a {RUN}-character run (more than {SLOW_S} s: super-linear)"})
    return n, bad


def replay(parser, hexinput):
    text = bytes.fromhex(hexinput).decode("utf-8")
    p = subprocess.Popen([sys.executable, "-c", f"import sys; sys.path.insert(0, {os.path.dirname(os.path.dirname(os.path.dirname(os.path.abspath(__file__))))!r})\n"
                          f"from vlib.hlib import c19n\ntry:\n    c19n._call({parser!r}, {text!r})\nexcept Exception:\n    pass\n"], stdout=subprocess.DEVNULL, stderr=subprocess.DEVNULL)
    t0 = time.time()
    try:
        p.wait(timeout=DEADLINE_S)
    except subprocess.TimeoutExpired:
        p.kill()
        print(f"{parser}: no answer after {DEADLINE_S} s")
        return 1
    took = time.time() - t0
    print(f"{parser}: answered in {took:.2f} s")
    return 1 if took > SLOW_S + 1.0 else 0


if __name__ == "__main__":
    if sys.argv[1] == "child":
        sys.exit(child(sys.argv[2], sys.argv[3]))
    sys.exit(replay(sys.argv[2], sys.argv[3]))
