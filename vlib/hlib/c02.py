"""C02 harness library: every client-supplied path stays inside the user's base directory."""
import pathlib

import aioftp

from .. import hbase as hb
from .. import step as st
from . import model as M

LS = st.install_listeners()

SEGS = ["..", "a", "", ".", "b", "C:", "a\\b", "..a", "...", "\\\\srv\\share", "D:\\x", ".a"]
LEADS = ["", "/", "//", "///"]
CWDS = ["/", "/a", "/a/b", "/b/a/a"]
BASES = [("posix", "/srv/ftp"), ("posix", "."), ("posix", "/"), ("windows", "C:\\ftp"), ("posix", "rel/base")]


def mk_base(bi):
    kind, s = BASES[bi]
    return pathlib.PurePosixPath(s) if kind == "posix" else pathlib.PureWindowsPath(s)


def check(path, cwd, bi):
    """the C02 oracle on one call of the real Server.get_paths"""
    hb.KEY = ""
    base = mk_base(bi)
    user = aioftp.User()
    user.base_path = base
    c = aioftp.Connection(current_directory=pathlib.PurePosixPath(cwd), user=user)
    # the same argument was resolved a moment ago by ANOTHER session (other working directory, other base directory): the
    # answer for this session must not depend on it (get_paths is a function of its arguments, it remembers nothing)
    decoy_user = aioftp.User()
    decoy_user.base_path = pathlib.PurePosixPath("/decoy/base")
    aioftp.Server.get_paths(aioftp.Connection(current_directory=pathlib.PurePosixPath("/de/coy"), user=decoy_user), path)
    real, virt = aioftp.Server.get_paths(c, path)
    ref = M.resolve(cwd, path)
    vs = str(virt)
    if not (virt.is_absolute() and ".." not in virt.parts and "." not in virt.parts[1:]):
        hb.KEY = "virtual-not-normalised"
        return False
    if not real.is_relative_to(base):
        hb.KEY = "escape"
        return False
    if ".." in real.parts[len(base.parts):]:
        hb.KEY = "dotdot-in-real"
        return False
    if vs == ref and real == base / ref.lstrip("/"):
        return True
    if BASES[bi][0] == "windows" and vs == "/" and real == base:
        # a drive / UNC segment re-rooted the join: the guard falls back to the virtual root
        segs = ref.lstrip("/").split("/")
        first = segs[0]
        if ":" in first or first.startswith("\\"):
            return True
        # a name holding the storage flavour's own separator with '..' behind it ("..\\x"): the join splits it again, the
        # guard refuses the path as a whole
        if any(".." in sg.split("\\") for sg in segs):
            return True
    hb.KEY = "not-the-normalised-location"
    return False


BS_ALPH = [".", "\\", "a"]


def check_backslash(n, i0, i1, i2, i3, cwd_i, bi):
    """every string of 1..4 characters over {'.', backslash, 'a'} as ONE posix segment below a base path of flavour bi"""
    n = hb.conc(n, 1, 4)
    idx = [hb.conc(i0, 0, 2), hb.conc(i1, 0, 2), hb.conc(i2, 0, 2), hb.conc(i3, 0, 2)][:n]
    return check("".join(BS_ALPH[i] for i in idx), CWDS[hb.conc(cwd_i, 0, 1)], bi)


def check_one_to_one(n, i0, i1, i2, cwd_i, bi):
    """STRICT form of the second sentence of the property for names holding the storage flavour's separator: the virtual
    path has one segment per component of the location actually addressed (so that the permission lookup and PWD talk
    about the same place the backend is asked for).  Names over {backslash, 'a'}."""
    hb.KEY = ""
    n = hb.conc(n, 1, 3)
    idx = [hb.conc(i0, 0, 1), hb.conc(i1, 0, 1), hb.conc(i2, 0, 1)][:n]
    name = "".join(["\\", "a"][i] for i in idx)
    base = mk_base(bi)
    user = aioftp.User()
    user.base_path = base
    c = aioftp.Connection(current_directory=pathlib.PurePosixPath(CWDS[hb.conc(cwd_i, 0, 1)]), user=user)
    real, virt = aioftp.Server.get_paths(c, name)
    if len(real.relative_to(base).parts) != len(virt.parts) - 1:
        hb.KEY = "separator-in-name-splits-real-path"
        return False
    return True


def join(lead_i, n, s0, s1, s2, s3):
    return LEADS[lead_i] + "/".join([SEGS[s0], SEGS[s1], SEGS[s2], SEGS[s3]][:n])


def seg_check(bi, cwd_i, lead_i, n, s0, s1, s2, s3):
    return check(join(lead_i, n, s0, s1, s2, s3), CWDS[cwd_i], bi)


ALIASES = ["..", "../..", "/..", "a/../..", "/a/../../x", "//a", "a//f", "./a/.", "../srv", "/../srv/a", "a/./../a/f", "/a/d/../../..",
           "d/..", "../../a/f", "x/../../../zz", ""]
TREE = {"/srv": "dir", "/srv/a": "dir", "/srv/a/f": b"hello", "/srv/a/d": "dir", "/srv/zz": b"", "/outside": "dir", "/outside/secret": b"s"}
PATH_VERBS = ["cwd", "mkd", "rmd", "dele", "rnfr", "rnto", "mlst", "list", "mlsd", "retr", "stor", "appe"]


def handler(verb, ai, cwd_i, data):
    """the real dispatcher with the spying backend: every path handed to the backend lies inside base_path;
    afterwards PWD reports the reference-normalised directory"""
    hb.KEY = ""
    user = aioftp.User("bob", None, base_path="/srv")
    server = st.make_server([user])
    st.build_tree(server, TREE)
    LS.started.clear()
    cwd = ["/", "/a", "/a/d"][cwd_i]
    pre = dict(user=user, logged=True, cwd=cwd, passive=True, rename_from="/a/f" if verb == "rnto" else None)
    if data:
        pre["data"] = ([b"xy"], None)
    hb.SpyPathIO.reset()
    arg = ALIASES[ai]
    lookups = []
    orig_lookup = user.get_permissions

    def spy_lookup(path):
        lookups.append(str(path))
        return orig_lookup(path)

    user.get_permissions = spy_lookup
    res = st.dispatcher_session(server, pre, [verb.upper() + ((" " + arg) if arg else ""), "PWD"], listeners=LS)
    head, per = st.per_command_replies(res)
    # the path used for the permission lookup is the normalised absolute form of the location addressed
    want_lookup = M.resolve(cwd, arg)
    if any(p != want_lookup for p in lookups):
        hb.KEY = "permission-lookup-not-normalised"
        return False
    base = pathlib.PurePosixPath("/srv")
    for p in hb.SpyPathIO.paths:
        if not pathlib.PurePosixPath(p).is_relative_to(base) or ".." in pathlib.PurePosixPath(p).parts:
            hb.KEY = "backend-path-outside"
            return False
    tp = st.tree_paths(server)
    if tp.get("/outside/secret") != b"s" or any(k.startswith("/outside/") and k != "/outside/secret" for k in tp) or "/outside" not in tp:
        hb.KEY = "outside-touched"
        return False
    if len(per) < 2 or len(res.states) < 2:
        hb.KEY = "no-pwd"
        return False
    codes = [c for c, _, _ in per[0]]
    want_cwd = cwd
    if verb == "cwd" and codes == ["250"]:
        want_cwd = M.resolve(cwd, arg)
    pwd = per[1]
    if [c for c, _, _ in pwd] != ["257"] or pwd[0][2] != '"' + want_cwd + '"' or res.states[1]["cwd"] != want_cwd:
        hb.KEY = "pwd"
        return False
    if verb == "cwd":
        ref = M.resolve(cwd, arg)
        exists_dir = ref == "/" or TREE.get("/srv" + ref) == "dir"
        if (codes == ["250"]) != exists_dir:
            hb.KEY = "cwd-target"
            return False
    hb.path_done("c02_" + verb, ",".join(codes))
    return True
