"""C14 harness library: ABOR at any moment stops the transfer, is answered, and keeps the session usable."""
import asyncio

import aioftp

from .. import hbase as hb
from .. import step as st

LS = st.install_listeners()
CONTENT = bytes(range(65, 65 + 7))  # 7 bytes, all distinct
TREE = {"/srv": "dir", "/srv/a": "dir", "/srv/a/f": CONTENT, "/srv/a/g": b"g", "/srv/a/h": b"h"}
KINDS = ["retr", "stor", "appe", "list", "mlsd"]
FOLLOW = ["pwd", "download", "upload", "abor"]


class IterReader:
    """control reader: items are delivered after a virtual gap ('gap', ms, text) or at the k-th loop iteration after a
    condition first held ('iter', cond, k, text) - iteration granularity is what makes the narrow windows visible"""

    def __init__(self, loop, items, hooks=None):
        self.loop, self.items = loop, list(items)
        self.hooks = hooks or {}
        self.index = 0
        self.waiting = None

    def on_iteration(self, loop, n):
        w = self.waiting
        if w is None:
            return
        cond, k, fut, since = w
        if since[0] is None and cond():
            since[0] = n
        if since[0] is not None and n >= since[0] + k and not fut.done():
            self.waiting = None
            fut.set_result(None)

    def on_idle(self, loop):
        # the loop has nothing left to do: "k iterations later" is now
        w = self.waiting
        if w is None or w[2].done():
            return False
        self.waiting = None
        w[2].set_result(None)
        return True

    async def readline(self):
        if self.index >= len(self.items):
            await asyncio.sleep(0)
            return b""
        i = self.index
        self.index += 1
        it = self.items[i]
        if it[0] == "gap":
            await asyncio.sleep(it[1])
            text = it[2]
        else:
            fut = self.loop.create_future()
            self.waiting = (it[1], it[2], fut, [None])
            await fut
            text = it[3]
        h = self.hooks.get(i)
        if h is not None:
            h()
        return st.Line(text + "\r\n")


def session(kind_i, k, bs, with_data, late_connect, follow_i, lat=0):
    """PASV, (client connects | does not | connects later), transfer, ABOR at the k-th iteration after the 150 mark, follow-up"""
    hb.KEY = ""
    kind = KINDS[hb.conc(kind_i, 0, 4)]
    k, bs, follow_i = hb.conc(k, 0, 200), hb.conc(bs, 1, 4), hb.conc(follow_i, 0, 3)
    user = aioftp.User("bob", None, base_path="/srv")
    server = st.make_server([user], block_size=bs, wait_future_timeout=30)
    st.build_tree(server, TREE)
    hb.SpyPathIO.reset(latency=hb.conc(lat, 0, 3))  # lat > 0: every backend call suspends (AsyncPathIO timing), so ABOR can arrive inside one
    LS.started.clear()
    LS.fail = None
    loop = hb.new_loop()
    writer = hb.CollectWriter()
    datas = []
    upload = kind in ("stor", "appe")

    def connect(payload_items):
        live = [(p, cb, l) for p, cb, l in LS.started if cb is not None and not l.closed]
        dr = hb.ScriptReader([(1, b) for b in payload_items], eof=True)
        dw = hb.CollectWriter()
        datas.append((dr, dw))
        if live:
            asyncio.ensure_future(live[-1][1](dr, dw))

    up_items = [bytes([x]) for x in b"0123456"]  # uploads arrive byte by byte, 1 virtual ms apart

    def first():
        c = next(iter(server.connections.values()))
        st.inject(server, c, dict(user=user, logged=True, cwd="/a"), LS)

    first_data = []

    def after_pasv():
        if with_data and not late_connect:
            connect(up_items if upload else [])
            first_data.append(datas[-1])

    def saw_150():
        return b"150 " in writer.data()

    cmd = {"retr": "RETR f", "stor": "STOR n", "appe": "APPE g", "list": "LIST", "mlsd": "MLSD"}[kind]
    items = [("gap", 10, "PASV"), ("gap", 10, cmd), ("iter", saw_150, k, "ABOR")]
    hooks = {0: first, 1: after_pasv}
    marks = {}

    def mark(name):
        def f():
            marks[name] = len(hb.reply_codes(writer))
        return f

    hooks[2] = mark("abor")
    fol = FOLLOW[follow_i]
    if fol == "pwd":
        items += [("gap", 100, "PWD")]
        hooks[3] = mark("follow")
    elif fol == "abor":
        items += [("gap", 100, "ABOR")]
        hooks[3] = mark("follow")
    elif fol == "download":
        def fresh():
            marks["follow"] = len(hb.reply_codes(writer))
            connect([])
        items += [("gap", 100, "PASV"), ("gap", 10, "RETR h")]
        hooks[3] = mark("follow0")
        hooks[4] = fresh
    else:
        def fresh_up():
            marks["follow"] = len(hb.reply_codes(writer))
            connect([b"up"])
        items += [("gap", 100, "PASV"), ("gap", 10, "STOR u")]
        hooks[3] = mark("follow0")
        hooks[4] = fresh_up
    items += [("gap", 200, "SYST")]
    hooks[len(items) - 1] = mark("end")
    reader = IterReader(loop, items, hooks)

    def on_iter(lp, n):
        reader.on_iteration(lp, n)
        if with_data and late_connect and not datas and saw_150() and n % 2 == 0:
            connect(up_items if upload else [])
            first_data.append(datas[-1])

    loop.on_iteration = on_iter
    loop.on_idle = reader.on_idle
    raised = None
    try:
        loop.run_until_complete(server.dispatcher(reader, writer))
    except hb.vloop.StepBudgetExceeded:
        raise
    except asyncio.CancelledError:
        raised = "cancelled"
    except Exception as e:  # noqa: BLE001
        raised = e
    hb.SpyPathIO.latency = 0
    replies = hb.reply_codes(writer)
    codes = [c for c, sep, _ in replies if sep == " "]
    hb.path_done("c14_" + kind, ",".join(codes))
    if raised is not None:
        hb.KEY = "session-torn-down" if raised == "cancelled" else "dispatcher-raised"
        return False
    if "end" not in marks:
        hb.KEY = "session-torn-down"
        return False
    # transcript: 220, 227, 150, <S>, follow-up..., 215 with S in {[completion, 226], [426, 226]}
    i150 = codes.index("150") if "150" in codes else -1
    if i150 < 0:
        hb.KEY = "no-150"
        return False
    fstart = marks.get("follow0", marks.get("follow"))
    seg = [c for c, sep, _ in replies[:fstart] if sep == " "][i150 + 1:]
    completion = {"retr": "226", "stor": "226", "appe": "226", "list": "226", "mlsd": "200"}[kind]
    allowed = [[completion, "226"], ["426", "226"], ["425", "226"]]
    if seg not in allowed:
        hb.KEY = "abor-transcript"
        return False
    interrupted = seg == ["426", "226"]
    # the transfer's data connection is closed
    if first_data:
        dr, dw = first_data[0]
        c = next(iter(server.connections.values()), None)
        taken = True
        if not dw.closed:
            # legitimate only if the connection was never taken by the transfer (ABOR won before the worker got it) and the
            # session still owns it; it is then closed with the session
            hb.KEY = "data-connection-open-after-abor"
            return False
    # only a prefix of the data delivered or stored
    tp = st.tree_paths(server)
    if kind == "retr" and first_data:
        got = first_data[0][1].data()
        if CONTENT[: len(got)] != got or (not interrupted and seg[0] == completion and got != CONTENT):
            hb.KEY = "not-a-prefix"
            return False
    if kind == "stor":
        got = tp.get("/srv/a/n")
        if got is not None and b"0123456"[: len(got)] != got:
            hb.KEY = "not-a-prefix"
            return False
        if seg[0] == completion and got != b"0123456":
            hb.KEY = "completed-but-short"
            return False
    if kind == "appe":
        got = tp.get("/srv/a/g")
        if got is None or (b"g" + b"0123456")[: len(got)] != got or len(got) < 1:
            hb.KEY = "not-a-prefix"
            return False
    # follow-up
    ftail = [c for c, sep, _ in replies[marks["follow"]:marks["end"]] if sep == " "]
    if fol == "pwd" and ftail != ["257"]:
        hb.KEY = "follow-up"
        return False
    if fol == "abor" and ftail != ["226"]:
        hb.KEY = "follow-up"
        return False
    if fol == "download":
        if ftail != ["150", "226"] or datas[-1][1].data() != b"h" or not datas[-1][1].closed:
            hb.KEY = "follow-up-download"
            return False
    if fol == "upload":
        if ftail != ["150", "226"] or tp.get("/srv/a/u") != b"up":
            hb.KEY = "follow-up-upload"
            return False
    return True
