"""C17 harness library: concurrent sessions do not interfere with each other."""
import asyncio

import aioftp
from aioftp import client as cli
from aioftp import server as srv

from .. import hbase as hb
from .. import simnet
from .. import step as st

LS = st.install_listeners()
TREE = {"/srv": "dir", "/srv/a": "dir", "/srv/a/f": b"hello", "/srv/b": "dir", "/srv/b/g": b"world", "/srv/b/sub": "dir"}
ARGS_A = {"cwd": "a", "cdup": "", "mkd": "a/new", "rmd": "a/none", "dele": "a/f", "rnfr": "a/f", "rnto": "a/f2", "mlst": "a/f", "list": "a", "mlsd": "a", "retr": "a/f",
          "stor": "a/up", "appe": "a/f", "type": "A", "rest": "3", "pasv": "", "epsv": "", "abor": "", "pwd": "", "syst": "", "quit": "", "user": "bob", "pass": "x",
          "pbsz": "0", "prot": "P", "foo": ""}


def snapshot(c):
    out = {}
    for k in sorted(c.keys()):
        f = c[k]
        if f.done():
            v = f.result()
            out[k] = ("done", id(v), v if isinstance(v, (int, str, bool, type(None))) else None, str(v) if k in ("current_directory", "rename_from") else None)
        else:
            out[k] = ("pending",)
    return out


SHARED_BY_DESIGN = ("server", "loop", "user", "path_io_factory", "acquired")


def _may_be_shared(key, v):
    """may the value stored under `key` be the very same object in two sessions?  Immutable values and what the server
    shares by design (itself, the loop, the user record of two sessions of one user); nothing else - in particular not
    containers, streams, futures, tasks, queues or the storage backend instance"""
    import pathlib

    if key in SHARED_BY_DESIGN:
        return True
    if v is None or isinstance(v, (bool, int, float, str, bytes, frozenset, pathlib.PurePath, type)):
        return True
    if isinstance(v, tuple):
        return all(_may_be_shared(key, x) for x in v)
    return False


def frame(verb, same_user, b_logged, b_cwd_i, b_rename, b_rest, b_passive, b_data, b_type, a_data):
    """session A executes one command while session B sits in an arbitrary state: B is not touched"""
    hb.KEY = ""
    hb.reset_logs()
    u1 = aioftp.User("bob", None, base_path="/srv")
    u2 = aioftp.User("eve", None, base_path="/srv")
    server = st.make_server([u1, u2], block_size=3)
    st.build_tree(server, TREE)
    LS.started.clear()
    LS.fail = None
    loop = hb.new_loop()
    wa, wb = hb.CollectWriter(), hb.CollectWriter()
    conns = {}
    snaps = {}
    b_user = u1 if same_user else u2
    b_cwd = ["/", "/b", "/b/sub"][hb.conc(b_cwd_i, 0, 2)]

    def find(writer):
        for key, c in server.connections.items():
            if key.writer is writer:
                return c
        return None

    def inject_b():
        c = find(wb)
        conns["b"] = c
        pre = dict(user=b_user, logged=b_logged, cwd=b_cwd, rename_from="/b/g" if b_rename else None, passive=b_passive or b_data, type="I" if b_type else None,
                   passive_port=40077)
        if b_data:
            pre["data"] = ([b"bdata"], None)
        conns["b_data"] = st.inject(server, c, pre, None)
        if b_rest:
            c.restart_offset = 2

    def snap_before():
        snaps["before"] = snapshot(conns["b"])
        snaps["b_replies"] = len(hb.reply_codes(wb))
        snaps["b_throttles"] = dict(conns["b"].command_connection.throttles)
        c = find(wa)
        conns["a"] = c
        pre = dict(user=u1, logged=True, cwd="/", passive=True, rename_from="/a/f" if verb == "rnto" else None)
        if a_data:
            pre["data"] = ([b"adata"], None)
        st.inject(server, c, pre, LS)

    def snap_after():
        snaps["after"] = snapshot(conns["b"])
        snaps["b_replies_after"] = len(hb.reply_codes(wb))
        # no mutable per-session container may be the same object in both sessions
        a, b = conns.get("a"), conns["b"]
        shared = []
        if a is not None:
            for k in b.keys():
                if k in a and a[k].done() and b[k].done():
                    va, vb = a[k].result(), b[k].result()
                    if va is vb and not _may_be_shared(k, va):
                        shared.append(k)
            # one backend instance per session, bound to its own session
            for name, c in (("a", a), ("b", b)):
                pio = c.path_io if "path_io" in c and c["path_io"].done() else None
                if pio is not None and getattr(pio, "connection", c) is not c:
                    shared.append("path_io.connection")
        snaps["shared"] = sorted(set(shared))

    arg = ARGS_A[verb]
    ra = st.HookReader([(20, st.Line(verb.upper() + ((" " + arg) if arg else "") + "\r\n"), snap_before)], eof=False)
    rb = st.HookReader([(10, st.Line("NOOP\r\n"), inject_b), (500, st.Line("PWD\r\n"), snap_after)], eof=True)
    rb.final_gap = 10

    async def both():
        ta = asyncio.ensure_future(server.dispatcher(ra, wa))
        await server.dispatcher(rb, wb)
        ta.cancel()
        try:
            await ta
        except asyncio.CancelledError:
            pass

    loop.run_until_complete(both())
    rep_b = hb.reply_codes(wb)
    hb.path_done("c17_" + verb, ",".join(c for c, _, _ in hb.reply_codes(wa)))
    if snaps.get("before") is None or snaps.get("after") is None:
        hb.KEY = "harness"
        return False
    if snaps.get("shared"):
        hb.KEY = "shared-mutable-state:" + ",".join(sorted(snaps["shared"]))
        return False
    if snaps["before"] != snaps["after"]:
        diff = [k for k in set(snaps["before"]) | set(snaps["after"]) if snaps["before"].get(k) != snaps["after"].get(k)]
        hb.KEY = "b-state-changed:" + ",".join(sorted(diff))
        return False
    if snaps["b_replies_after"] != snaps["b_replies"]:
        hb.KEY = "b-got-replies"
        return False
    # B's own view is intact: PWD answers from B's state
    tail = [(c, t) for c, sep, t in rep_b[snaps["b_replies"]:]]
    want = [("257", '"' + b_cwd + '"')] if b_logged else [("503", None)]
    if [c for c, _ in tail] != [c for c, _ in want] or (b_logged and tail[0][1] != want[0][1]):
        hb.KEY = "b-view"
        return False
    bd = conns["b_data"]
    if b_data and bd[1] is not None and bd[1].chunks:
        hb.KEY = "b-data-connection-used"
        return False
    return True


A_EVENTS = ["ABOR", "QUIT", "<EOF>", "PASV", "RETR a/f", "USER bob", "REST 1"]


def inflight(ev_i, b_kind_i, connect_late):
    """session B has a transfer IN FLIGHT (worker waiting for its data connection, or mid-transfer on a slow data socket)
    while session A sends ABOR / quits / vanishes / does anything else: B's transfer completes with all its bytes"""
    hb.KEY = ""
    ev = A_EVENTS[hb.conc(ev_i, 0, len(A_EVENTS) - 1)]
    b_cmd = ["RETR b/g", "STOR b/new", "LIST b", "MLSD b"][hb.conc(b_kind_i, 0, 3)]
    u1 = aioftp.User("bob", None, base_path="/srv")
    server = st.make_server([u1], block_size=2, wait_future_timeout=500)
    st.build_tree(server, TREE)
    LS.started.clear()
    LS.fail = None
    loop = hb.new_loop()
    wa, wb = hb.CollectWriter(), hb.CollectWriter()
    datas = {}

    def inj(writer, passive):
        def f():
            for key, c in server.connections.items():
                if key.writer is writer and not ("user" in c and c["user"].done()):
                    st.inject(server, c, dict(user=u1, logged=True, cwd="/", passive=passive), LS if not passive else None)
        return f

    def connect_b():
        mine = None
        for key, c in server.connections.items():
            if key.writer is wb:
                mine = c.passive_server
        live = [(p, cb, l) for p, cb, l in LS.started if l is mine]
        payload = [(3, b"u"), (3, b"p"), (3, b"!")] if b_cmd.startswith("STOR") else []
        dr, dw = hb.ScriptReader(payload, eof=True), hb.CollectWriter()
        datas["b"] = dw
        asyncio.ensure_future(live[-1][1](dr, dw))

    # B: PASV at 10, transfer command at 20, data connection either at 15 (mid-transfer when A acts) or at 60 (waiting when A acts)
    b_items = [(10, st.Line("PASV\r\n"), inj(wb, False))]
    if not connect_late:
        b_items += [(5, st.Line("NOOP\r\n"), connect_b)]
    b_items += [(5 if not connect_late else 10, st.Line(b_cmd + "\r\n"), None)]
    if connect_late:
        b_items += [(40, st.Line("NOOP\r\n"), connect_b)]
    b_items += [(60, st.Line("PWD\r\n"), None)]
    rb = st.HookReader(b_items, eof=True)
    rb.final_gap = 10
    a_items = [(5, st.Line("SYST\r\n"), inj(wa, True))]
    if ev != "<EOF>":
        a_items += [(18, st.Line(ev + "\r\n"), None)]
    ra = st.HookReader(a_items, eof=True)
    ra.final_gap = 18 if ev == "<EOF>" else 30

    async def both():
        await asyncio.gather(server.dispatcher(ra, wa), server.dispatcher(rb, wb))

    try:
        loop.run_until_complete(both())
    except hb.vloop.Deadlock:
        hb.KEY = "hang"
        return False
    codes_b = [c for c, sep, _ in hb.reply_codes(wb) if sep == " "]
    hb.path_done("c17_inflight", ev + ":" + ",".join(codes_b))
    done = {"RETR b/g": "226", "STOR b/new": "226", "LIST b": "226", "MLSD b": "200"}[b_cmd]
    noop = ["502"]
    want = ["220", "227"] + (noop if not connect_late else []) + ["150"] + (noop if connect_late else []) + [done, "257"]
    if sorted(codes_b) != sorted(want) or codes_b[-1] != "257" or codes_b.index("150") > codes_b.index(done):
        hb.KEY = "b-transcript"
        return False
    if b_cmd.startswith("RETR") and datas["b"].data() != b"world":
        hb.KEY = "b-data"
        return False
    if b_cmd.startswith("STOR") and st.tree_paths(server).get("/srv/b/new") != b"up!":
        hb.KEY = "b-stored"
        return False
    return True


def passive_delivery(a_first):
    """two sessions with a passive listener each: an accepted data connection goes to the session that owns the listener"""
    hb.KEY = ""
    u1 = aioftp.User("bob", None, base_path="/srv")
    server = st.make_server([u1], block_size=3)
    st.build_tree(server, TREE)
    LS.started.clear()
    LS.fail = None
    loop = hb.new_loop()
    wa, wb = hb.CollectWriter(), hb.CollectWriter()
    datas = {}

    def inj(writer):
        def f():
            for key, c in server.connections.items():
                if key.writer is writer and not ("user" in c and c["user"].done()):
                    st.inject(server, c, dict(user=u1, logged=True, cwd="/"), LS)
        return f

    def connect(idx, name, payload):
        def f():
            live = [(p, cb, l) for p, cb, l in LS.started if cb is not None and not l.closed]
            dr, dw = hb.ScriptReader([(0, payload)], eof=True), hb.CollectWriter()
            datas[name] = dw
            asyncio.ensure_future(live[idx][1](dr, dw))
        return f

    ia, ib = (0, 1) if a_first else (1, 0)
    ra = st.HookReader([(10 if a_first else 20, st.Line("PASV\r\n"), inj(wa)), (50, st.Line("NOOP\r\n"), connect(ia, "a", b"")), (10, st.Line("RETR a/f\r\n"), None)], eof=True)
    rb = st.HookReader([(20 if a_first else 10, st.Line("EPSV\r\n"), inj(wb)), (50, st.Line("NOOP\r\n"), connect(ib, "b", b"")), (10, st.Line("RETR b/g\r\n"), None)], eof=True)
    ra.final_gap = rb.final_gap = 100

    async def both():
        await asyncio.gather(server.dispatcher(ra, wa), server.dispatcher(rb, wb))

    loop.run_until_complete(both())
    hb.path_done("c17_passive", "")
    return datas["a"].data() == b"hello" and datas["b"].data() == b"world" and datas["a"].closed and datas["b"].closed


# ---------------------------------------------------------------------------------------------------------------
async def sc_upload(c, tag):
    await c.make_directory(tag)
    async with c.upload_stream(tag + "/up") as s:
        await s.write(tag.encode() * 3)
    return [str(p) for p, _ in await c.list(tag)]


async def sc_download(c, tag):
    await c.change_directory(tag)
    got = b""
    async with c.download_stream("f" if tag == "a" else "g", offset=1) as s:
        async for b in s.iter_by_block(2):
            got += b
    return got, str(await c.get_current_directory())


async def sc_rename(c, tag):
    await c.command("TYPE A", "200")
    await c.rename(tag + "/" + ("f" if tag == "a" else "g"), tag + "/moved")
    await c.command("REST 4", "350")
    return [str(p) for p, _ in await c.list(tag)]


E2E = [sc_upload, sc_download, sc_rename]


def pair(sa, sb, lat_a, lat_b, same_user, solo=None):
    """two real clients on disjoint paths over SimNet; per-client latency decides the interleaving"""
    hb.KEY = ""
    sa, sb = hb.conc(sa, 0, 2), hb.conc(sb, 0, 2)
    lat_a, lat_b = hb.conc(lat_a, 1, 4), hb.conc(lat_b, 1, 4)
    loop = hb.new_loop()
    names = {}

    def lat(tr):
        # latency by session: looked up through the control connection's client port
        port = tr.local[1] if tr.side == "client" else tr.remote[1]
        return names.get(port, 1)

    net = simnet.SimNet(lat=lat)
    srv.asyncio = st._AsyncioProxy(net)
    cli.open_connection = net.open_connection
    ua = aioftp.User("bob", None, base_path="/srv")
    ub = aioftp.User("eve", None, base_path="/srv")
    server = aioftp.Server([ua, ub], path_io_factory=hb.SpyPathIO, block_size=2)
    out = {}

    async def one(name, login, script, tag, latency):
        c = aioftp.Client(path_io_factory=aioftp.MemoryPathIO)
        before = net.next_ephemeral
        # every connection this client opens gets its latency (ports are allocated sequentially while it connects)
        orig = net.open_connection

        await c.connect("10.0.0.1", 21)
        names[before] = latency
        await c.login(login, "x")
        out[name] = await script(c, tag)
        await c.quit()

    async def main():
        await server.start("10.0.0.1", 21)
        st.build_tree(server, TREE)
        tasks = []
        if solo in (None, "a"):
            tasks.append(one("a", "bob", E2E[sa], "a", lat_a))
        if solo in (None, "b"):
            tasks.append(one("b", "bob" if same_user else "eve", E2E[sb], "b", lat_b))
        await asyncio.gather(*tasks)
        await server.close()

    try:
        loop.run_until_complete(main())
    finally:
        srv.asyncio = st._AsyncioProxy(LS)
    tree = st.tree_paths(server)
    return out, tree


SOLO = {}


def solo(script_i, who, same_user):
    """solo reference run (computed once, natively, at harness import: it does not depend on the latencies)"""
    key = (script_i, who, bool(same_user))
    if key not in SOLO:
        if who == "a":
            out, tree = pair(script_i, 0, 1, 1, same_user, solo="a")
        else:
            out, tree = pair(0, script_i, 1, 1, same_user, solo="b")
        SOLO[key] = (out.get(who), tree)
    return SOLO[key]


def precompute():
    for i in range(len(E2E)):
        for su in (False, True):
            solo(i, "a", su)
            solo(i, "b", su)


def pair_check(sa, sb, lat_a, lat_b, same_user):
    sa, sb = hb.conc(sa, 0, 2), hb.conc(sb, 0, 2)
    same_user = bool(same_user)
    both, tree = pair(sa, sb, lat_a, lat_b, same_user)
    a_res, tree_a = solo(sa, "a", same_user)
    b_res, tree_b = solo(sb, "b", same_user)
    hb.path_done("c17_pair", "")
    if both.get("a") != a_res or both.get("b") != b_res:
        hb.KEY = "result-differs-from-solo"
        return False
    # final tree == union of the solo effects on the disjoint subtrees
    want = {}
    for k, v in tree_a.items():
        if k.startswith("/srv/a") or k == "/srv":
            want[k] = v
    for k, v in tree_b.items():
        if k.startswith("/srv/b"):
            want[k] = v
    if tree != want:
        hb.KEY = "tree-not-union"
        return False
    return True
