"""C07 harness library (CrossHair part): listing fields round trip and listing completeness."""
import datetime
import io
import pathlib
import stat as stat_mod
import time as real_time

import aioftp
from aioftp.pathio import Node

from .. import hbase as hb
from .. import step as st

LS = st.install_listeners()
NOW = hb.FIXED_NOW
DAY = 86400
HALF = 15778476
# modification times (relative to the fixed 'now'): just now, yesterday, inside the half year, outside it, in the future,
# the epoch, a leap day, last second of a year
MTIMES = [NOW, NOW - DAY, NOW - 100 * DAY, NOW - HALF - 3 * DAY, NOW + 3600, 1, 951782400 + 3600 * 7 + 5, 1704067199, NOW - HALF + 2 * DAY, NOW - 59]
NAMES = ["a", "a b", "é", "-x", "x;y", "t=1", "a->b", "q\"", "#", "ab c", "日本"]
SIZES = [0, 1, 9, 10, 99, 100, 12345, 2 ** 31 - 1, 2 ** 31, 2 ** 32, 2 ** 40]


def drive(coro):
    try:
        coro.send(None)
    except StopIteration as e:
        return e.value
    coro.close()
    raise RuntimeError("coroutine suspended")


class StatPathIO(aioftp.MemoryPathIO):
    """MemoryPathIO whose stat() reports a chosen size (files of 2**40 bytes cannot be materialised)"""
    fake_size = None

    async def stat(self, path):
        s = await super().stat(path)
        if StatPathIO.fake_size is not None and stat_mod.S_ISREG(s.st_mode):
            return aioftp.MemoryPathIO.Stats(StatPathIO.fake_size, s.st_ctime, s.st_mtime, s.st_nlink, s.st_mode)
        return s


def expected_modify(mtime, precise):
    d = datetime.datetime.fromtimestamp(mtime, datetime.timezone.utc)
    if precise:
        return d.strftime("%Y%m%d%H%M%S")
    return d


def mk_conn(is_dir, name, size, mtime):
    server = aioftp.Server([aioftp.User(base_path="/srv")], path_io_factory=StatPathIO)
    pio = server.path_io_factory(timeout=None, connection=None)
    root = pio.fs[0]
    srvdir = Node("dir", "srv", ctime=NOW - 5, mtime=NOW - 5, content=[])
    root.content.append(srvdir)
    if is_dir:
        srvdir.content.append(Node("dir", name, ctime=mtime, mtime=mtime, content=[]))
    else:
        srvdir.content.append(Node("file", name, ctime=mtime, mtime=mtime, content=io.BytesIO(b"x" * min(size, 16))))
    StatPathIO.fake_size = None if is_dir else size
    c = aioftp.Connection(path_io=pio)
    return server, c, pathlib.PurePosixPath("/srv") / name


def mlsx_roundtrip(is_dir, ni, size, mi):
    """server build_mlsx_string -> bytes -> client parse_mlsx_line: name, type, size, modify/create (UTC seconds)"""
    hb.KEY = ""
    name = NAMES[hb.conc(ni, 0, len(NAMES) - 1)]
    mtime = MTIMES[hb.conc(mi, 0, len(MTIMES) - 1)]
    server, c, path = mk_conn(is_dir, name, size, mtime)
    line = drive(server.build_mlsx_string(c, path))
    client = aioftp.Client(path_io_factory=aioftp.MemoryPathIO)
    got_name, info = client.parse_mlsx_line((line + "\r\n").encode("utf-8"))
    want_t = expected_modify(mtime, True)
    ok = str(got_name) == name and info.get("type") == ("dir" if is_dir else "file")
    ok = ok and info.get("modify") == want_t and info.get("create") == want_t
    ok = ok and info.get("size") == str(0 if is_dir else size)
    if not ok:
        hb.KEY = "mlsx-field"
    return ok


def list_roundtrip(is_dir, ni, size, mi):
    """server build_list_string -> client parse_list_line (the LIST fallback): name, type, size, modify to ls precision"""
    hb.KEY = ""
    name = NAMES[hb.conc(ni, 0, len(NAMES) - 1)]
    mtime = MTIMES[hb.conc(mi, 0, len(MTIMES) - 1)]
    # the LIST line goes through strptime and a chain of index()/isdigit() calls: a symbolic size would make the whole line a
    # symbolic string (regex machinery on symbolic text does not terminate in practice): one path per size value instead
    size = hb.conc(size, 0, 2 ** 41)
    server, c, path = mk_conn(is_dir, name, size, mtime)
    line = drive(server.build_list_string(c, path))
    client = aioftp.Client(path_io_factory=aioftp.MemoryPathIO)
    got_name, info = client.parse_list_line((line + "\r\n").encode("utf-8"))
    d = datetime.datetime.fromtimestamp(mtime + hb.ZONE, datetime.timezone.utc)  # ls dates are local time
    recent = NOW - HALF < mtime <= NOW
    boundary = abs((NOW - HALF) - mtime) <= DAY
    if recent:
        want = d.strftime("%Y%m%d%H%M00")
    else:
        want = d.strftime("%Y%m%d000000")
    ok = str(got_name) == name and info.get("type") == ("dir" if is_dir else "file") and info.get("size") == str(0 if is_dir else size)
    if not boundary:
        ok = ok and info.get("modify") == want
    want_mode = (stat_mod.S_IFDIR | 0o777) if is_dir else (stat_mod.S_IFREG | 0o666)
    ok = ok and info.get("unix.mode") == (want_mode & 0o7777)
    if not ok:
        hb.KEY = "list-field"
        return ok
    # the same line read again a year later (same client object, same process): the year-less form is resolved against the
    # clock of THAT moment - the parser is a function of (text, now), it keeps nothing from earlier calls
    if recent and not boundary and not (d.month == 2 and d.day == 29):
        saved = hb.WALL.now
        try:
            hb.WALL.now = saved + 365 * DAY
            d2 = d.replace(year=d.year + 1)
            if d2.timestamp() - hb.ZONE <= hb.WALL.now:
                got_name2, info2 = client.parse_list_line((line + "\r\n").encode("utf-8"))
                if info2.get("modify") != d2.strftime("%Y%m%d%H%M00"):
                    hb.KEY = "list-field-depends-on-earlier-call"
                    return False
        finally:
            hb.WALL.now = saved
    return ok


KINDS = ["absent", "file", "dir"]


def completeness(verb, k0, k1, k2, k3, target_is_file):
    """MLSD / LIST through the real dispatcher: exactly the directory's entries, each once, none invented, backend order;
    MLST of each entry equals its MLSD line"""
    hb.KEY = ""
    kinds = [KINDS[hb.conc(k, 0, 2)] for k in (k0, k1, k2, k3)]
    names = ["a", "b c", "-d", "e;f"]
    user = aioftp.User("bob", None, base_path="/srv")
    server = st.make_server([user])
    tree = {"/srv": "dir", "/srv/d": "dir", "/srv/other": b"zz"}
    want = []
    for n, kd in zip(names, kinds):
        if kd == "file":
            tree["/srv/d/" + n] = b"xy" * (len(n))
            want.append((n, "file", str(2 * len(n))))
        elif kd == "dir":
            tree["/srv/d/" + n] = "dir"
            want.append((n, "dir", "0"))
    st.build_tree(server, tree)
    LS.started.clear()
    pre = dict(user=user, logged=True, cwd="/", passive=True, data=([], None))
    arg = "other" if target_is_file else "d"
    lines = [verb.upper() + " " + arg] + ["MLST d/" + n for n, _, _ in want]
    res = st.dispatcher_session(server, pre, lines, listeners=LS)
    head, per = st.per_command_replies(res)
    data = res.data_writer.data().decode("utf-8")
    client = aioftp.Client(path_io_factory=aioftp.MemoryPathIO)
    rows = [l for l in data.split("\r\n") if l]
    hb.path_done("c07_" + verb, str(len(rows)))
    got = []
    for l in rows:
        if verb == "mlsd":
            nm, info = client.parse_mlsx_line(l.encode("utf-8"))
        else:
            nm, info = client.parse_list_line(l.encode("utf-8"))
        got.append((str(nm), info["type"], info["size"] if "size" in info else "0"))
    codes = [c for c, sep, _ in per[0] if sep == " "]
    if codes != ["150", "200" if verb == "mlsd" else "226"]:
        hb.KEY = "replies"
        return False
    if target_is_file:
        if got != []:
            hb.KEY = "listing-of-a-file"
            return False
        return True
    if got != want:
        hb.KEY = "entries"
        return False
    if not res.data_writer.closed:
        hb.KEY = "data-not-closed"
        return False
    if verb == "mlsd":
        # MLST of each entry: the same facts line
        for i, (n, _, _) in enumerate(want):
            rep = per[1 + i]
            facts = [t for c, sep, t in rep if not (sep == " " and c.isdigit()) and not (sep == "-")]
            body = [(c + sep + t) for c, sep, t in rep][1:-1]
            if len(body) != 1 or body[0].lstrip() != rows[i]:
                hb.KEY = "mlst-differs-from-mlsd"
                return False
    return True
