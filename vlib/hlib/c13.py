"""C13 harness library: backend failures are contained - 451, data channel closed, session lives on."""
import asyncio

import aioftp

from .. import hbase as hb
from .. import step as st

LS = st.install_listeners()
TREE = {"/srv": "dir", "/srv/a": "dir", "/srv/a/f": b"hello", "/srv/a/d": "dir", "/srv/zz": b"z"}
CASES = {
    "cwd": "a", "cdup": "", "mkd": "n/m", "rmd": "a/d", "dele": "zz", "rnfr": "zz", "rnto": "new", "mlst": "a/f", "list": "a", "mlsd": "a",
    "retr": "a/f", "stor": "a/new", "appe": "a/f", "stor_rest": "a/f", "retr_rest": "a/f",
}


def step(case, k, repeat, with_data, ek=0):
    """ek: what the failing backend call raises (index into SpyPathIO.FAIL_KINDS: EIO, a timeout, ValueError, ENOENT, RuntimeError)"""
    hb.KEY = ""
    k = hb.conc(k, 1, 40)
    ek = hb.conc(ek, 0, len(hb.SpyPathIO.FAIL_KINDS) - 1)
    verb = case.split("_")[0]
    user = aioftp.User("bob", None, base_path="/srv")
    server = st.make_server([user], block_size=2)
    st.build_tree(server, TREE)
    LS.started.clear()
    pre = dict(user=user, logged=True, cwd="/", passive=True, rename_from="/zz" if verb == "rnto" else None)
    if with_data:
        pre["data"] = ([b"xyz"], None)
    arg = CASES[case]
    lines = (["REST 2"] if case.endswith("_rest") else []) + [verb.upper() + ((" " + arg) if arg else ""), "PWD", "MLST a"]
    hb.SpyPathIO.reset(fail_at=None)
    armed = {"on": False}

    def arm(res):
        # arm the fault right before the command under test is delivered (set-up traffic is not counted)
        hb.SpyPathIO.reset(fail_at=k, fail_repeat=repeat, fail_kind=ek)

    def disarm(res):
        armed["calls"] = hb.SpyPathIO.calls
        armed["open"] = hb.SpyPathIO.open_files()
        hb.SpyPathIO.fail_at = None
        hb.SpyPathIO.fail_repeat = False

    ci = 1 if case.endswith("_rest") else 0
    res = st.dispatcher_session(server, pre, lines, listeners=LS, hooks={ci: arm, ci + 1: disarm})
    head, per = st.per_command_replies(res)
    codes = [c for c, sep, _ in per[ci] if sep == " "] if len(per) > ci else []
    failed = armed.get("calls", 0) >= k
    hb.path_done("c13_" + case, ("F:" if failed else "ok:") + ",".join(codes))
    if res.raised is not None:
        hb.KEY = "dispatcher-raised"
        return False
    if len(res.states) < len(lines) + 1:
        hb.KEY = "session-ended"
        return False
    if not failed:
        return True  # the fault index lies beyond the calls this command makes: nothing to check here
    # (1) answered with 451, never with a success reply
    if not codes or codes[-1] != "451" or any(c.startswith("2") for c in codes) or len([c for c in codes if not c.startswith("1")]) != 1:
        hb.KEY = "not-451"
        return False
    # (2) a data connection that was taken from the session is closed (the peer sees EOF), no file stays open
    dw = res.data_writer
    if dw is not None and not res.states[ci + 1]["data"] and not dw.closed:
        hb.KEY = "data-connection-left-open"
        return False
    if armed.get("open", 0) != 0:
        hb.KEY = "file-left-open"
        return False
    # (3) the session stays usable
    nxt = [c for c, sep, _ in per[ci + 1] if sep == " "]
    nxt2 = [c for c, sep, _ in per[ci + 2] if sep == " "]
    if nxt != ["257"] or nxt2 != ["250"]:
        hb.KEY = "session-unusable"
        return False
    return True


def e2e(kind, k):
    """real Client over SimNet: the client's data socket sees EOF, gets 451, and the next transfer on the session works"""
    from .. import simnet
    from aioftp import client as cli
    from aioftp import server as srv

    hb.KEY = ""
    k = hb.conc(k, 1, 12)
    loop = hb.new_loop()
    net = simnet.SimNet()
    srv.asyncio = st._AsyncioProxy(net)
    cli.open_connection = net.open_connection
    user = aioftp.User("bob", None, base_path="/srv")
    server = aioftp.Server([user], path_io_factory=hb.SpyPathIO, block_size=2)
    out = {}

    async def run():
        await server.start("10.0.0.1", 21)
        st.build_tree(server, TREE)
        c = aioftp.Client(path_io_factory=aioftp.MemoryPathIO)
        await c.connect("10.0.0.1", 21)
        await c.login("bob", "x")
        other = aioftp.Client(path_io_factory=aioftp.MemoryPathIO)
        await other.connect("10.0.0.1", 21)
        await other.login("bob", "x")
        hb.SpyPathIO.reset(fail_at=k)
        try:
            if kind == "download":
                stream = await c.download_stream("a/f")
            else:
                stream = await c.upload_stream("a/new")
            if kind == "download":
                got = b""
                while True:
                    b = await stream.read(2)
                    if not b:
                        break
                    got += b
                out["eof"] = True
            else:
                await stream.write(b"xyz")
            await stream.finish()
            out["result"] = "ok"
        except aioftp.StatusCodeError as e:
            out["result"] = str(e.received_codes[-1])
        out["failed"] = hb.SpyPathIO.calls >= k
        hb.SpyPathIO.reset(fail_at=None)
        # follow-up on the same session and on another one
        got2 = b""
        async with c.download_stream("a/f") as s:
            async for b in s.iter_by_block(4):
                got2 += b
        out["again"] = got2
        out["other"] = [str(p) for p, _ in await other.list("a")]
        await asyncio.sleep(50)
        out["open_server_side"] = len(net.open_server_transports())
        await c.quit()
        await other.quit()
        await server.close()

    try:
        loop.run_until_complete(run())
    except hb.vloop.Deadlock:
        hb.KEY = "peer-left-waiting"
        return False
    finally:
        srv.asyncio = st._AsyncioProxy(LS)
    hb.path_done("c13_e2e", kind + ":" + str(out.get("result")))
    if out.get("again") != b"hello" or "a/f" not in out.get("other", []):
        hb.KEY = "follow-up"
        return False
    if out.get("failed"):
        if out.get("result") != "451":
            hb.KEY = "e2e-not-451"
            return False
        if out.get("open_server_side") != 2:  # the two control connections
            hb.KEY = "e2e-transport-left"
            return False
    else:
        if out.get("result") != "ok":
            hb.KEY = "e2e-unexpected"
            return False
    return True
