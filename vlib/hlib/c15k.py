"""C15 accounting kernel: Throttle / ThrottleStreamIO executed from their CURRENT source by the pysym interpreter over z3
reals; chunk sizes, I/O durations, idle gaps and oversleeps are symbolic.  Native (z3) check, no CrossHair.
"""
import asyncio
import inspect
import itertools
import time

import z3

import aioftp
from aioftp import common as com

from .. import pysym as P


class Data(P.Model):
    def __init__(self, n):
        self.n = n


class Sim:
    def __init__(self, tag=""):
        self.now = z3.RealVal(0)
        self.cons = []
        self.io = []  # (stream_name, start_time, n)
        self.k = 0
        self.tag = tag

    def fresh(self, kind, real=True, lo=0):
        self.k += 1
        v = (z3.Real if real else z3.Int)(f"{kind}{self.tag}{self.k}")
        self.cons.append(v >= lo)
        return v


def make_models(sim, max_chunk):
    @P.model
    def m_now(ip):
        return sim.now

    @P.model
    def m_sleep(ip, x):
        # asyncio.sleep(x): resumes no earlier than x later (x <= 0: immediately), possibly later (oversleep >= 0)
        xr = z3.RealVal(x) if not z3.is_expr(x) else P.Interp._num(x)
        sim.now = sim.now + z3.If(xr > 0, xr, 0) + sim.fresh("over")
        return None

    @P.model
    def m_create_task(ip, coro):
        return coro

    @P.model
    def m_wait(ip, tasks, timeout=None, return_when="ALL_COMPLETED"):
        # asyncio.wait(tasks): the tasks run concurrently from the same instant; the join ends when the last one ends
        # (ALL_COMPLETED) or when the first one ends (FIRST_COMPLETED / FIRST_EXCEPTION without exceptions: all)
        if timeout is not None:
            raise P.Unsupported("asyncio.wait with a timeout")
        t0 = sim.now
        end = None
        for c in tasks:
            sim.now = t0
            c.run(ip)
            if end is None:
                end = sim.now
            elif return_when == "FIRST_COMPLETED":
                end = z3.If(sim.now <= end, sim.now, end)
            else:
                end = z3.If(sim.now >= end, sim.now, end)
        sim.now = end if end is not None else t0
        return None

    @P.model
    def m_len(ip, d):
        return d.n if isinstance(d, Data) else len(d)

    class Super(P.Model):
        """super() inside ThrottleStreamIO.read/write: the underlying StreamIO does the I/O, which takes d >= 0 seconds"""

        def __init__(self, stream_name):
            self.stream_name = stream_name

        def _io(self, ip, n):
            sim.io.append((self.stream_name, sim.now, n))
            sim.now = sim.now + sim.fresh("dur")

        @P.model
        def read(self, ip, count=-1):
            n = sim.fresh("n", real=False, lo=1)
            sim.cons.append(n <= max_chunk)
            self._io(ip, n)
            return Data(n)

        readline = read

        @P.model
        def write(self, ip, data):
            self._io(ip, data.n)
            return None

    return {"_now": m_now, "asyncio.sleep": m_sleep, "asyncio.create_task": m_create_task, "asyncio.wait": m_wait, "len": m_len,
            "max": P.m_max, "min": P.m_min, "round": P.m_round, "int": P.m_int, "math.floor": P.m_floor}, Super


def new_throttle(ip, limit, reset_rate):
    return ip.instantiate(com.Throttle, limit=limit, reset_rate=reset_rate)


def new_stream(ip, throttles):
    """throttles: dict name -> (read Throttle Obj, write Throttle Obj)"""
    st = {}
    for name, (r, w) in throttles.items():
        st[name] = P.Obj(com.StreamThrottle, read=r, write=w)
    return P.Obj(com.ThrottleStreamIO, throttles=st)


class Scenario:
    """k sequential I/Os on one stream through a stack of throttles"""

    def __init__(self, limits, reset_rate, k, direction="read", other_limits=None, max_chunk=64):
        self.limits, self.reset_rate, self.k, self.direction = limits, reset_rate, k, direction
        self.other_limits = other_limits
        self.max_chunk = max_chunk

    def run(self, ip):
        sim = Sim()
        models, Super = make_models(sim, self.max_chunk)
        ip.models = models
        sup = Super("s")
        models["super"] = P.model(lambda ip_: sup)
        ths = {}
        for i, L in enumerate(self.limits):
            lim = new_throttle(ip, L, self.reset_rate)
            oth = new_throttle(ip, (self.other_limits or [None] * len(self.limits))[i], self.reset_rate)
            ths[f"t{i}"] = (lim, oth) if self.direction == "read" else (oth, lim)
        stream = new_stream(ip, ths)
        fn = com.ThrottleStreamIO.read if self.direction == "read" else com.ThrottleStreamIO.write
        marks = []
        for i in range(self.k):
            sim.now = sim.now + sim.fresh("gap")
            before = sim.now
            if self.direction == "read":
                P.Coro(fn, [stream, 8], {}).run(ip)
            else:
                n = sim.fresh("n", real=False, lo=1)
                sim.cons.append(n <= self.max_chunk)
                P.Coro(fn, [stream, Data(n)], {}).run(ip)
            marks.append(before)
        return sim, ths, marks


def folds_of(pc_taken):
    return None


def check_scenario(sc, rho_per_fold, stats, want_witness=False, timeout_ms=60000):
    """every I/O start i: sum_{j<i} n_j <= L * (s_i - s_0) + rho, for every limited throttle in the stack; and no
    unnecessary delay: the stream never starts later than the latest instant some limit required (+ oversleeps).
    -> list of violations (dicts)"""
    ip = P.Interp({})
    out = []
    npaths = 0
    holder = {}

    def run(ip_):
        sim, ths, marks = sc.run(ip_)
        holder["v"] = (sim, ths, marks)
        return None

    for pc, outcome in ip.explore(run):
        npaths += 1
        sim, ths, marks = holder["v"]
        if outcome[0] != "ret":
            out.append({"kind": "raises", "exc": outcome[1].__name__})
            continue
        ios = sim.io
        s0 = ios[0][1]
        # number of folds on this path: count reset branches taken == number of (start - _start > reset_rate) decided True
        for ti, L in enumerate(sc.limits):
            if not L:
                continue
            total = z3.IntVal(0)
            for i, (_, s_i, n_i) in enumerate(ios):
                if i > 0:
                    folds_upper = i  # at most one fold per earlier append
                    rho = z3.RealVal(rho_per_fold) * folds_upper
                    s = z3.Solver()
                    s.set("timeout", timeout_ms)
                    s.add(*pc)
                    s.add(*sim.cons)
                    s.add(z3.ToReal(total) > z3.RealVal(L) * (s_i - s0) + rho)
                    t = time.time()
                    r = s.check()
                    stats["solver_s"] += time.time() - t
                    stats["queries"] += 1
                    if r == z3.sat:
                        m = s.model()
                        out.append({"kind": "ahead", "limit": L, "io": i, "model": _model_str(m), "excess": str(m.eval(z3.ToReal(total) - z3.RealVal(L) * (s_i - s0), model_completion=True))})
                        if not want_witness:
                            return out, npaths
                    elif r != z3.unsat:
                        stats["unknown"] += 1
                total = total + n_i
    return out, npaths


def _model_str(m):
    return {str(d): str(m[d]) for d in m.decls()}


# -------------------------------------------------------------------------------------------------------------------
def check_no_delay_when_off(limit_value, other_limit, k, stats, direction="read"):
    """limit None / 0 in the exercised direction (the other direction may be limited): the stream is never delayed"""
    sc = Scenario([limit_value], 10, k, direction=direction, other_limits=[other_limit])
    ip = P.Interp({})
    holder = {}
    out, npaths = [], 0

    def run(ip_):
        holder["v"] = sc.run(ip_)

    for pc, outcome in ip.explore(run):
        npaths += 1
        sim, ths, marks = holder["v"]
        for (name, s_i, n_i), before in zip(sim.io, marks):
            s = z3.Solver()
            s.add(*pc)
            s.add(*sim.cons)
            s.add(s_i != before)
            t = time.time()
            r = s.check()
            stats["solver_s"] += time.time() - t
            stats["queries"] += 1
            if r != z3.unsat:
                out.append({"kind": "delay-although-off", "limit": limit_value, "other": other_limit, "result": str(r)})
                return out, npaths
    return out, npaths


def check_no_unnecessary_delay(sc, allowance_bytes_per_fold, stats):
    """an I/O never starts later than the latest instant some limit required (+ what the sleeps overslept)"""
    ip = P.Interp({})
    holder = {}
    out, npaths = [], 0

    def run(ip_):
        holder["v"] = sc.run(ip_)

    for pc, outcome in ip.explore(run):
        npaths += 1
        sim, ths, marks = holder["v"]
        overs = [c.arg(0) for c in sim.cons if z3.is_ge(c) and str(c.arg(0)).startswith("over")]
        s0 = sim.io[0][1]
        total = z3.IntVal(0)
        for i, ((name, s_i, n_i), before) in enumerate(zip(sim.io, marks)):
            if i > 0:
                req = before
                for L in sc.limits:
                    if L:
                        need = s0 + (z3.ToReal(total) + z3.RealVal(allowance_bytes_per_fold) * i) / z3.RealVal(L)
                        req = z3.If(need > req, need, req)
                slack = sum(overs, z3.RealVal(0))
                s = z3.Solver()
                s.add(*pc)
                s.add(*sim.cons)
                s.add(s_i > req + slack)
                t = time.time()
                r = s.check()
                stats["solver_s"] += time.time() - t
                stats["queries"] += 1
                if r != z3.unsat:
                    m = s.model() if r == z3.sat else None
                    out.append({"kind": "unnecessary-delay", "io": i, "limits": sc.limits, "model": _model_str(m) if m else str(r)})
                    return out, npaths
            total = total + n_i
    return out, npaths


def interleavings(n_a, n_b):
    """orders of the state-touching events (wait, append per I/O) of two streams, per-stream order preserved"""
    ea = [("A", i, ev) for i in range(n_a) for ev in ("wait", "append")]
    eb = [("B", i, ev) for i in range(n_b) for ev in ("wait", "append")]
    for pos in itertools.combinations(range(len(ea) + len(eb)), len(ea)):
        order, ia, ib = [], 0, 0
        for p in range(len(ea) + len(eb)):
            if p in pos:
                order.append(ea[ia])
                ia += 1
            else:
                order.append(eb[ib])
                ib += 1
        yield order


def check_shared(L, reset_rate, n_a, n_b, rho_per_fold, stats, max_chunk=64, limit_orders=None, private=None):
    """two streams sharing ONE throttle: at every completion instant the bytes moved by both <= L * elapsed + one block
    per stream (+ rounding allowance).  private: each stream additionally carries its own throttle with that limit (the
    per-connection level below a shared level, as the server builds them); the shared bound must hold all the same"""
    out, npaths, norders = [], 0, 0
    for order in interleavings(n_a, n_b):
        norders += 1
        if limit_orders is not None and norders > limit_orders:
            break
        ip = P.Interp({})
        holder = {}

        def run(ip_):
            sim = Sim()
            models, Super = make_models(sim, max_chunk)
            ip_.models = models
            shared = new_throttle(ip_, L, reset_rate)
            none1, none2 = new_throttle(ip_, None, reset_rate), new_throttle(ip_, None, reset_rate)
            levels = {"A": {"g": (shared, none1)}, "B": {"g": (shared, none2)}}
            if private is not None:
                for sname in ("A", "B"):
                    levels[sname]["p"] = (new_throttle(ip_, private, reset_rate), new_throttle(ip_, None, reset_rate))
            streams = {"A": new_stream(ip_, levels["A"]), "B": new_stream(ip_, levels["B"])}
            clock = {"A": z3.RealVal(0), "B": z3.RealVal(0)}
            pending = {}
            events = []  # (kind, stream, time, n)
            last_t = z3.RealVal(0)
            for (sname, i, ev) in order:
                if ev == "wait":
                    clock[sname] = clock[sname] + sim.fresh("gap")
                    t_call = clock[sname]
                    sim.cons.append(t_call >= last_t)
                    last_t = t_call
                    sim.now = t_call
                    P.Coro(com.ThrottleStreamIO.wait, [streams[sname], "read"], {}).run(ip_)
                    start = sim.now
                    n = sim.fresh("n", real=False, lo=1)
                    sim.cons.append(n <= max_chunk)
                    done = start + sim.fresh("dur")
                    pending[sname] = (start, n, done)
                    clock[sname] = done
                else:
                    start, n, done = pending.pop(sname)
                    sim.cons.append(done >= last_t)
                    last_t = done
                    sim.now = done
                    ip_.call_function(com.ThrottleStreamIO.append, [streams[sname], "read", Data(n), start], {})
                    events.append((sname, start, done, n))
            holder["v"] = (sim, events)

        for pc, outcome in ip.explore(run):
            npaths += 1
            sim, events = holder["v"]
            s0 = events[0][1]
            for e in events:
                s0 = z3.If(e[1] < s0, e[1], s0)
            maxblk = {}
            for sname in ("A", "B"):
                mb = z3.IntVal(0)
                for e in events:
                    if e[0] == sname:
                        mb = z3.If(e[3] > mb, e[3], mb)
                maxblk[sname] = mb
            for e in events:
                tau = e[2]
                moved = sum([z3.If(x[2] <= tau, x[3], 0) for x in events], z3.IntVal(0))
                s = z3.Solver()
                s.add(*pc)
                s.add(*sim.cons)
                rho = z3.RealVal(rho_per_fold) * len(events)
                s.add(z3.ToReal(moved) > z3.RealVal(L) * (tau - s0) + z3.ToReal(maxblk["A"] + maxblk["B"]) + rho)
                t = time.time()
                r = s.check()
                stats["solver_s"] += time.time() - t
                stats["queries"] += 1
                if r != z3.unsat:
                    out.append({"kind": "shared-limit-exceeded", "order": [f"{a}{i}{ev[0]}" for a, i, ev in order], "result": str(r),
                                "model": _model_str(s.model()) if r == z3.sat else None})
                    return out, npaths, norders
    return out, npaths, norders


def check_clone_independent(stats):
    """clone(): same limit and reset rate, no shared memory - accounting on one never changes the other"""
    ip = P.Interp({})
    out = []

    def run(ip_):
        sim = Sim()
        models, Super = make_models(sim, 64)
        ip_.models = models
        t = new_throttle(ip_, 7, 3)
        ip_.call_function(com.Throttle.append, [t, Data(z3.IntVal(5)), z3.RealVal(1)], {})
        c = ip_.call_function(com.Throttle.clone, [t], {})
        if not isinstance(c, P.Obj) or c is t:
            return "clone-is-not-a-new-object"
        if c._attrs.get("_limit") != 7 or c._attrs.get("reset_rate") != 3:
            return "clone-lost-configuration"
        if c._attrs.get("_start") is not None or not (c._attrs.get("_sum") == 0):
            return "clone-keeps-memory"
        before = dict(c._attrs)
        ip_.call_function(com.Throttle.append, [t, Data(z3.IntVal(9)), z3.RealVal(2)], {})
        if dict(c._attrs) != before:
            return "clone-shares-state"
        st = P.Obj(com.StreamThrottle, read=t, write=new_throttle(ip_, None, 10))
        st2 = ip_.call_function(com.StreamThrottle.clone, [st], {})
        return None

    for pc, outcome in ip.explore(run):
        stats["queries"] += 1
        if outcome[0] != "ret" or outcome[1] is not None:
            out.append({"kind": "clone", "what": str(outcome[1])})
    return out


def check_limit_setter(stats):
    """setting a new limit forgets the window (start and sum), so the new rate counts from the next I/O"""
    ip = P.Interp({})
    out = []

    def run(ip_):
        sim = Sim()
        models, Super = make_models(sim, 64)
        ip_.models = models
        t = new_throttle(ip_, 7, 3)
        ip_.call_function(com.Throttle.append, [t, Data(z3.IntVal(5)), z3.RealVal(1)], {})
        prop = com.Throttle.__dict__["limit"]
        ip_.call_function(prop.fset, [t, 11], {})
        if t._attrs.get("_limit") != 11 or t._attrs.get("_start") is not None or not (t._attrs.get("_sum") == 0):
            return "limit-setter-keeps-memory"
        return None

    for pc, outcome in ip.explore(run):
        stats["queries"] += 1
        if outcome[0] != "ret" or outcome[1] is not None:
            out.append({"kind": "limit-setter", "what": str(outcome[1])})
    return out


# -------------------------------------------------------------------------------------------------------------------
# native replay of solver witnesses against the REAL classes (virtual clock, oversleeps injected into asyncio.sleep)
def _vals(model, prefix):
    from fractions import Fraction

    items = []
    for k, v in model.items():
        if k.startswith(prefix) and k[len(prefix):].isdigit():
            items.append((int(k[len(prefix):]), Fraction(v)))  # exact rationals: the replay has no rounding of its own
    return [v for _, v in sorted(items)]


def replay_single(limits, reset_rate, direction, model, other_limits=None):
    """-> dict(starts, sizes, before) measured on the real ThrottleStreamIO"""
    from .. import hbase as hb

    gaps, ns, durs, overs = _vals(model, "gap"), _vals(model, "n"), _vals(model, "dur"), _vals(model, "over")
    loop = hb.new_loop()
    overs_it = iter(overs)
    real_sleep = asyncio.sleep

    class AsyncioProxy:
        def __getattr__(self, name):
            if name == "sleep":
                async def sleep(x, *a):
                    o = next(overs_it, 0.0)
                    await real_sleep((x if x > 0 else 0) + o)
                return sleep
            return getattr(asyncio, name)

    starts, before = [], []
    state = {"i": 0}

    class Rd:
        async def read(self, count=-1):
            i = state["i"]
            starts.append(loop.time())
            await real_sleep(durs[i] if i < len(durs) else 0)
            return b"x" * int(ns[i])

        readline = read

    class Wr(hb.CollectWriter):
        def write(self, data):
            starts.append(loop.time())

        async def drain(self):
            i = state["i"]
            await real_sleep(durs[i] if i < len(durs) else 0)

    ths = {}
    for i, L in enumerate(limits):
        from fractions import Fraction

        lim = com.Throttle(limit=Fraction(L) if L else L, reset_rate=reset_rate)  # Fraction limit: sum / limit stays exact
        oth = com.Throttle(limit=(other_limits or [None] * len(limits))[i], reset_rate=reset_rate)
        ths[f"t{i}"] = com.StreamThrottle(read=lim, write=oth) if direction == "read" else com.StreamThrottle(read=oth, write=lim)
    stream = com.ThrottleStreamIO(Rd(), Wr(), throttles=ths)
    saved = com.asyncio
    com.asyncio = AsyncioProxy()

    async def run():
        for i in range(len(gaps)):
            state["i"] = i
            await real_sleep(gaps[i])
            before.append(loop.time())
            if direction == "read":
                await stream.read(8)
            else:
                await stream.write(b"x" * int(ns[i]))

    try:
        loop.run_until_complete(run())
    finally:
        com.asyncio = saved
    return {"starts": starts, "sizes": [int(x) for x in ns], "before": before}


def replay_runs_ahead(limits, reset_rate, direction, model, tol=0):
    r = replay_single(limits, reset_rate, direction, model)
    s0 = r["starts"][0]
    total = 0
    worst = None
    for i, s in enumerate(r["starts"]):
        for L in limits:
            if L and i > 0:
                excess = total - L * (s - s0)
                if excess > tol:
                    worst = max(worst or 0, excess)
        total += r["sizes"][i]
    return worst


def replay_unnecessary_delay(limits, reset_rate, direction, model, tol=0):
    from fractions import Fraction

    r = replay_single(limits, reset_rate, direction, model)
    overs = sum(_vals(model, "over"))
    s0 = r["starts"][0]
    total = 0
    worst = None
    for i, (s, b) in enumerate(zip(r["starts"], r["before"])):
        if i > 0:
            req = b
            for L in limits:
                if L:
                    req = max(req, s0 + Fraction(total) / Fraction(L))
            late = s - (req + overs)
            if late > tol:
                worst = max(worst or 0, late)
        total += r["sizes"][i]
    return worst


def fallback_sweep(grid):
    """Used ONLY when the interpreter meets a construct it does not model (the z3 kernel is then inconclusive): concrete
    schedules on the real classes in exact rationals - greedy back-to-back I/O, idle gaps around the reset period, two
    streams alternating under a shared limit with and without private limits.  Sampling, not a solver verdict.
    -> (number of schedules, [(kind, limits, reset_rate, direction, {"model":..., "order":...})] that violate a bound)"""
    def model(ns, gaps, durs=None, overs=None):
        m = {}
        for i, v in enumerate(ns):
            m[f"n{i}"] = str(v)
        for i, v in enumerate(gaps):
            m[f"gap{i}"] = str(v)
        for i, v in enumerate(durs or [0] * len(ns)):
            m[f"dur{i}"] = str(v)
        for i, v in enumerate(overs or [0] * (2 * len(ns))):
            m[f"over{i}"] = str(v)
        return m

    n, bad = 0, []
    sizes = [[64] * 5, [1, 64, 1, 64, 1], [7, 7, 7, 7, 7]]
    gapsets = [[0] * 5, [0, "21/2", 0, "19/2", 0], [0, 0, 11, 0, 0], ["1/3"] * 5]
    stacks = [[L] for L in grid] + [[a, b] for a in grid[:3] for b in grid[:3] if a != b]
    for limits in stacks:
        for R in (1, 10):
            for direction in ("read", "write"):
                for ns in sizes:
                    for gaps in gapsets:
                        n += 1
                        m = model(ns, gaps)
                        try:
                            if replay_runs_ahead(limits, R, direction, m) is not None:
                                bad.append(("ahead", limits, R, direction, {"model": m}))
                            elif replay_unnecessary_delay(limits, R, direction, m) is not None:
                                bad.append(("unnecessary-delay", limits, R, direction, {"model": m}))
                        except Exception:  # noqa: BLE001  a crash of the real classes on a plain schedule is a finding of its own kind
                            bad.append(("ahead", limits, R, direction, {"model": m}))
    orders = [["A0w", "A0a", "B0w", "B0a", "A1w", "A1a", "B1w", "B1a"], ["A0w", "B0w", "A0a", "B0a", "A1w", "B1w", "A1a", "B1a"]]
    for G, Pl in [(3, None), (3, 2), (1000, 600)]:
        for order in orders:
            for ns in ([64, 64, 64, 64], [41, 21, 21, 41]):
                n += 1
                m = model(ns, [0, 0, 0, 0])
                try:
                    if replay_shared(G, 10, order, m, private=Pl) is not None:
                        bad.append(("shared", [G] + ([Pl] if Pl else []), 10, "read", {"model": m, "order": order}))
                except Exception:  # noqa: BLE001
                    bad.append(("shared", [G] + ([Pl] if Pl else []), 10, "read", {"model": m, "order": order}))
    return n, bad


def replay_main(argv):
    """python -m vlib.hlib.c15k '<json>'  -> exit 1 if the witness reproduces on the real classes"""
    import json
    import sys

    spec = json.loads(argv[0])
    if spec["kind"] == "shared":
        w = replay_shared(spec["limits"][0], spec["reset_rate"], spec["order"], spec["model"], private=(spec["limits"][1] if len(spec["limits"]) > 1 else None))
    else:
        fn = {"ahead": replay_runs_ahead, "unnecessary-delay": replay_unnecessary_delay}[spec["kind"]]
        w = fn(spec["limits"], spec["reset_rate"], spec["direction"], spec["model"])
    print(json.dumps({"reproduced": w is not None, "excess": str(w)}))
    return 1 if w is not None else 0


if __name__ == "__main__":
    import sys

    sys.exit(replay_main(sys.argv[1:]))


def replay_shared(L, reset_rate, order, model, private=None):
    """the witness of check_shared on two REAL ThrottleStreamIO objects sharing one real Throttle, exact rationals.
    -> excess (Fraction) if the shared bound is exceeded, else None"""
    from fractions import Fraction

    from .. import hbase as hb

    gaps, ns, durs, overs = _vals(model, "gap"), _vals(model, "n"), _vals(model, "dur"), _vals(model, "over")
    seq = sorted([(int(k[3:]), "gap", Fraction(v)) for k, v in model.items() if k.startswith("gap")] +
                 [(int(k[1:]), "n", Fraction(v)) for k, v in model.items() if k.startswith("n") and k[1:].isdigit()] +
                 [(int(k[3:]), "dur", Fraction(v)) for k, v in model.items() if k.startswith("dur")] +
                 [(int(k[4:]), "over", Fraction(v)) for k, v in model.items() if k.startswith("over")])
    vals = {"gap": [v for _, k, v in seq if k == "gap"], "n": [v for _, k, v in seq if k == "n"], "dur": [v for _, k, v in seq if k == "dur"],
            "over": [v for _, k, v in seq if k == "over"]}
    its = {k: iter(v) for k, v in vals.items()}
    loop = hb.new_loop()
    real_sleep = asyncio.sleep

    class AsyncioProxy:
        def __getattr__(self, name):
            if name == "sleep":
                async def sleep(x, *a):
                    await real_sleep((x if x > 0 else 0) + next(its["over"], Fraction(0)))
                return sleep
            return getattr(asyncio, name)

    shared = com.Throttle(limit=Fraction(L), reset_rate=reset_rate)
    def levels():
        d = {"g": com.StreamThrottle(read=shared, write=com.Throttle())}
        if private is not None:
            d["p"] = com.StreamThrottle(read=com.Throttle(limit=Fraction(private), reset_rate=reset_rate), write=com.Throttle())
        return d

    streams = {"A": com.ThrottleStreamIO(None, None, throttles=levels()), "B": com.ThrottleStreamIO(None, None, throttles=levels())}
    clock = {"A": Fraction(0), "B": Fraction(0)}
    pending, events = {}, []
    saved = com.asyncio
    com.asyncio = AsyncioProxy()
    try:
        for tok in order:
            sname, ev = tok[0], tok[-1]
            if ev == "w":
                clock[sname] = clock[sname] + next(its["gap"], Fraction(0))
                loop._t = clock[sname]
                loop.run_until_complete(streams[sname].wait("read"))
                start = loop.time()
                n = int(next(its["n"], Fraction(1)))
                done = start + next(its["dur"], Fraction(0))
                pending[sname] = (start, n, done)
                clock[sname] = done
            else:
                start, n, done = pending.pop(sname)
                loop._t = done
                streams[sname].append("read", b"x" * n, start)
                events.append((sname, start, done, n))
    finally:
        com.asyncio = saved
    s0 = min(e[1] for e in events)
    maxblk = {s: max([e[3] for e in events if e[0] == s] or [0]) for s in ("A", "B")}
    worst = None
    for e in events:
        tau = e[2]
        moved = sum(x[3] for x in events if x[2] <= tau)
        excess = moved - (Fraction(L) * (tau - s0) + maxblk["A"] + maxblk["B"])
        if excess > 0:
            worst = max(worst or 0, excess)
    return worst
