"""C06 harness library: reply framing - what the server encodes is what the client decodes."""
import asyncio

import aioftp
from aioftp import client as cli

from .. import hbase as hb

# line universe (Mode A at line level): class representatives of what the decoder looks at - emptiness, a leading dash or
# space, text that looks like a reply line / a continuation line / a code, non-ASCII digits, quotes, inner blanks
LINES = ["", "a", "-", " a", "25", "250", "250 x", "250-x", "²", 'é"', "a b", "-250 x", "226 ok", "٣٣٣ x"]
CODES = ["250", "226", "150", "550", "000", "999", "257", "331"]
SENTINEL = ("226", ["ok"])


class ListStream:
    def __init__(self, lines=()):
        self.lines = list(lines)
        self.written = []
        self.closed = False

    async def write(self, data):
        self.written.append(data)

    async def readline(self):
        return self.lines.pop(0) if self.lines else b""

    def close(self):
        self.closed = True


def drive(coro):
    try:
        coro.send(None)
    except StopIteration as e:
        return e.value
    coro.close()
    raise RuntimeError("coroutine suspended")


def encode_reply(code, lines, lst, encoding):
    server = aioftp.Server([aioftp.User()], path_io_factory=aioftp.MemoryPathIO, encoding=encoding)
    out = ListStream()
    drive(server.write_response(out, code, lines if len(lines) != 1 else lines[0], lst))
    return out.written


def expected_info(lines, lst):
    n = len(lines)
    out = []
    for i, l in enumerate(lines):
        if lst:
            sep = "-" if i == 0 else (" " if i == n - 1 else None)
            if sep is None:
                out.append((" " + l).rstrip())  # listing style: body lines keep their leading blank, no code
                continue
        else:
            sep = " " if i == n - 1 else "-"
        out.append((sep + l).rstrip())
    return out


def roundtrip(ci, lst, latin, n, i0, i1, i2):
    """server.write_response -> bytes -> client.parse_response, followed by a sentinel reply"""
    hb.KEY = ""
    code = CODES[ci]
    lines = [LINES[i0], LINES[i1], LINES[i2]][:n]
    if lst and n < 2:
        return True  # listing style needs head and tail
    enc = "latin-1" if latin else "utf-8"
    if latin and any(any(ord(ch) > 255 for ch in l) for l in lines):
        return True  # not representable in latin-1: the server raises before anything is sent (outside the claim)
    wire = encode_reply(code, lines, lst, enc) + encode_reply(SENTINEL[0], SENTINEL[1], False, enc)
    c = aioftp.Client(path_io_factory=aioftp.MemoryPathIO, encoding=enc)
    c.stream = ListStream(wire)
    got_code, info = drive(c.parse_response())
    ok = got_code == code and list(info) == expected_info(lines, lst)
    if not ok:
        hb.KEY = "decode"
        return False
    s_code, s_info = drive(c.parse_response())
    if not (s_code == SENTINEL[0] and list(s_info) == [" ok"]):
        hb.KEY = "desync"
        return False
    return True


WIDTH_CHARS = ["a", "\u00e9", "\u65e5", "\U0001f600"]  # 1, 2, 3 and 4 bytes in UTF-8


def boundary_line(k, w, tail):
    """k ASCII characters, then one character that is w bytes wide in UTF-8 (w = 1..4), then an optional ASCII tail: the
    multi-byte character starts at byte offset k (+1 for the blank of a listing body line, +4 behind a code and separator)"""
    return "abc"[:k] + WIDTH_CHARS[w - 1] + (".t" if tail else "")


def roundtrip_utf8(lst, n, k0, w0, k1, w1, tail):
    """as roundtrip, for lines in which a multi-byte character sits at every small byte offset (code / separator / body
    boundaries are BYTE positions on the wire and CHARACTER positions after decoding)"""
    hb.KEY = ""
    n, k0, w0, k1, w1 = hb.conc(n, 2, 3), hb.conc(k0, 0, 3), hb.conc(w0, 1, 4), hb.conc(k1, 0, 3), hb.conc(w1, 1, 4)
    lst, tail = bool(lst), bool(tail)
    lines = [boundary_line(k0, w0, tail), boundary_line(k1, w1, tail), "end"][3 - n:]
    if n == 3:
        lines = [lines[2], lines[0], lines[1]]  # head 'end', body and tail carry the characters
    wire = encode_reply("250", lines, lst, "utf-8") + encode_reply(SENTINEL[0], SENTINEL[1], False, "utf-8")
    c = aioftp.Client(path_io_factory=aioftp.MemoryPathIO, encoding="utf-8")
    c.stream = ListStream(wire)
    got_code, info = drive(c.parse_response())
    if not (got_code == "250" and list(info) == expected_info(lines, lst)):
        hb.KEY = "decode-utf8"
        return False
    s_code, s_info = drive(c.parse_response())
    if not (s_code == SENTINEL[0] and list(s_info) == [" ok"]):
        hb.KEY = "desync-utf8"
        return False
    hb.path_done("c06_utf8", "")
    return True


def roundtrip_free(lst, l0, l1):
    """Mode S search: free Unicode body/tail lines (no CR/LF, no trailing whitespace)"""
    hb.KEY = ""
    lines = [l0, l1]
    wire = encode_reply("250", lines, lst, "utf-8") + encode_reply(SENTINEL[0], SENTINEL[1], False, "utf-8")
    c = aioftp.Client(path_io_factory=aioftp.MemoryPathIO)
    c.stream = ListStream(wire)
    got_code, info = drive(c.parse_response())
    if not (got_code == "250" and list(info) == expected_info(lines, lst)):
        return False
    s_code, s_info = drive(c.parse_response())
    return s_code == SENTINEL[0] and list(s_info) == [" ok"]


def mismatch(c1, c2, n_body, i0):
    """a reply whose final line carries a different code is rejected, and the next reply still decodes"""
    hb.KEY = ""
    a, b = CODES[c1], CODES[c2]
    raw = [(a + "-" + LINES[i0] + "\r\n").encode()] * n_body + [(b + " end\r\n").encode()]
    wire = raw + encode_reply(SENTINEL[0], SENTINEL[1], False, "utf-8")
    c = aioftp.Client(path_io_factory=aioftp.MemoryPathIO)
    c.stream = ListStream(wire)
    try:
        drive(c.parse_response())
        rejected = False
    except aioftp.StatusCodeError:
        rejected = True
    if rejected != (a != b):
        hb.KEY = "reject"
        return False
    s_code, s_info = drive(c.parse_response())
    if not (s_code == SENTINEL[0] and list(s_info) == [" ok"]):
        hb.KEY = "desync"
        return False
    return True


def mismatch_middle(c1, c2, pos, n_lines, dash):
    """a continuation line in the MIDDLE of a reply that carries a different code: the reply is rejected, not accepted as a
    reply of the first code (whether the stream can be resynchronised afterwards is not claimed: the boundary of a broken
    reply is undefined)"""
    hb.KEY = ""
    a, b = CODES[c1], CODES[c2]
    n_lines = hb.conc(n_lines, 3, 5)
    pos = hb.conc(pos, 1, 3)
    if pos >= n_lines - 1:
        return True
    lines = []
    for i in range(n_lines):
        code = b if i == pos else a
        sep = " " if i == n_lines - 1 else "-"
        if i == pos and not dash:
            sep = " "
        lines.append((code + sep + "t%d\r\n" % i).encode())
    c = aioftp.Client(path_io_factory=aioftp.MemoryPathIO)
    c.stream = ListStream(lines)
    try:
        code, info = drive(c.parse_response())
        rejected = False
    except aioftp.StatusCodeError:
        rejected = True
    if a == b:
        return not rejected
    if not rejected:
        hb.KEY = "accepted-with-foreign-code"
        return False
    return True


def ascii_digit(ch):
    return ch in "0123456789"


def matches(code, mask):
    """the real Code.matches code run on a symbolic plain str (Code(...) itself would realise the string)"""
    got = cli.Code.matches(code, mask)
    want = True
    for i in range(min(len(mask), len(code))):
        if ascii_digit(mask[i]) and mask[i] != code[i]:
            want = False
    return bool(got) == want


def check_codes(code, m1, m2):
    c = aioftp.Client(path_io_factory=aioftp.MemoryPathIO)

    class Proxy(str):
        pass

    rc = _CodeView(code)
    want_ok = _m(code, m1) or _m(code, m2)
    try:
        c.check_codes((m1, m2), rc, ["x"])
        ok = True
    except aioftp.StatusCodeError:
        ok = False
    return ok == want_ok


def _m(code, mask):
    for i in range(min(len(mask), len(code))):
        if ascii_digit(mask[i]) and mask[i] != code[i]:
            return False
    return True


class _CodeView:
    """object with the real Code.matches bound to a (possibly symbolic) plain string"""

    def __init__(self, s):
        self.s = s

    def matches(self, mask):
        return cli.Code.matches(self.s, mask)


def command_loop(n_wait, final_ci, expect_i):
    """Client.command: skips replies matching the wait masks, returns the first other one, checks it against expected"""
    hb.KEY = ""
    final = CODES[final_ci]
    expect = ["2xx", "226", "25x", "1xx", "5", ""][expect_i]
    wire = [b"150 started\r\n"] * n_wait + [(final + " done\r\n").encode()] + [b"226 sentinel\r\n"]
    c = aioftp.Client(path_io_factory=aioftp.MemoryPathIO)
    c.stream = ListStream(wire)
    want_ok = expect == "" or _m(final, expect)
    if final.startswith("1"):
        # the "final" reply is itself a wait code: the loop must go on to the sentinel
        want_code = "226"
        want_ok = expect == "" or _m("226", expect)
    else:
        want_code = final
    try:
        code, info = drive(c.command("NOOP", expect, "1xx"))
        ok = True
    except aioftp.StatusCodeError as e:
        ok = False
        code = e.received_codes[-1]
    if ok != want_ok or code != want_code:
        hb.KEY = "command-loop"
        return False
    if c.stream.written != [b"NOOP\r\n"]:
        hb.KEY = "command-sent"
        return False
    return True


def segmentation(k1, k2, lst):
    """the same bytes through a REAL asyncio.StreamReader, cut into three segments at symbolic positions"""
    hb.KEY = ""
    lines = ["a", "250 x", "b"]
    wire = b"".join(encode_reply("250", lines, lst, "utf-8") + encode_reply(SENTINEL[0], SENTINEL[1], False, "utf-8"))
    loop = hb.new_loop()
    reader = asyncio.StreamReader(loop=loop)
    c = aioftp.Client(path_io_factory=aioftp.MemoryPathIO)
    c.stream = aioftp.StreamIO(reader, hb.CollectWriter())

    async def feed():
        reader.feed_data(wire[:k1])
        await asyncio.sleep(1)
        reader.feed_data(wire[k1:k2])
        await asyncio.sleep(1)
        reader.feed_data(wire[k2:])
        reader.feed_eof()

    async def run():
        t = asyncio.ensure_future(feed())
        r1 = await c.parse_response()
        r2 = await c.parse_response()
        await t
        return r1, r2

    (code, info), (s_code, s_info) = loop.run_until_complete(run())
    return code == "250" and list(info) == expected_info(lines, lst) and s_code == "226" and list(s_info) == [" ok"]


SEG_LEN = len(b"".join(encode_reply("250", ["a", "250 x", "b"], False, "utf-8") + encode_reply("226", ["ok"], False, "utf-8")))


def parse_command(up0, up1, up2, up3, arg, has_arg):
    """Server.parse_command: verb lower-cased, argument = everything after the first space, right-stripped"""
    from .. import step as st

    verb = ("S" if up0 else "s") + ("T" if up1 else "t") + ("O" if up2 else "o") + ("R" if up3 else "r")
    line = verb + ((" " + arg) if has_arg else "") + "\r\n"
    server = aioftp.Server([aioftp.User()], path_io_factory=aioftp.MemoryPathIO)
    stream = ListStream([st.Line(line)])
    cmd, rest = drive(server.parse_command(stream))
    return cmd == "stor" and rest == (arg if has_arg else "")
