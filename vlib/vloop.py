"""Deterministic virtual-time event loop: no selector, no sockets, no threads, INTEGER clock (virtual ms).

Real asyncio Task/Future/wait/wait_for/shield/gather/Queue run on top of it unchanged.  Timer deadlines may be
symbolic integers under CrossHair: the order of expiry is then decided by the solver (min()/sorted() compare them).
`on_iteration(loop, n)` is called once per loop iteration: crash points, ABOR arrival and cancellations are injected there.
"""
import asyncio
import itertools
from asyncio import events, futures, tasks


class StepBudgetExceeded(RuntimeError):
    pass


class Deadlock(RuntimeError):
    pass


class VLoop(asyncio.AbstractEventLoop):
    def __init__(self, max_steps=200000):
        self._t = 0
        self._ready = []
        self._timers = []
        self._seq = itertools.count()
        self._closed = False
        self._running = False
        self.exceptions = []
        self.steps = 0
        self.iterations = 0
        self.max_steps = max_steps
        self.on_iteration = None
        self.on_idle = None  # called when nothing is scheduled; returns True if it scheduled something
        self.executor_calls = 0

    # -- time & scheduling
    def time(self):
        return self._t

    def call_soon(self, cb, *args, context=None):
        h = events.Handle(cb, args, self, context)
        self._ready.append(h)
        return h

    call_soon_threadsafe = call_soon

    def call_later(self, delay, cb, *args, context=None):
        return self.call_at(self._t + delay, cb, *args, context=context)

    def call_at(self, when, cb, *args, context=None):
        h = events.TimerHandle(when, cb, args, self, context)
        self._timers.append((when, next(self._seq), h))
        return h

    def _timer_handle_cancelled(self, h):
        pass

    def create_future(self):
        return futures.Future(loop=self)

    def create_task(self, coro, *, name=None, context=None):
        return tasks.Task(coro, loop=self, name=name, context=context)

    def run_in_executor(self, executor, func, *args):
        # environment stub: the "thread" runs at the next loop iteration
        fut = self.create_future()
        self.executor_calls += 1

        def run():
            if fut.cancelled():
                return
            try:
                fut.set_result(func(*args))
            except Exception as e:  # noqa: BLE001  (only Exception: CrossHair steers with BaseException)
                fut.set_exception(e)

        self.call_soon(run)
        return fut

    def get_debug(self):
        return False

    def set_debug(self, v):
        pass

    def is_running(self):
        return self._running

    def is_closed(self):
        return self._closed

    def close(self):
        self._closed = True

    def call_exception_handler(self, ctx):
        self.exceptions.append(ctx)

    def default_exception_handler(self, ctx):
        self.exceptions.append(ctx)

    async def shutdown_asyncgens(self):
        pass

    async def shutdown_default_executor(self, timeout=None):
        pass

    # -- running
    def _run_once(self, advance=True):
        if not self._ready:
            live = [t for t in self._timers if not t[2].cancelled()]
            if not live or not advance:
                self._timers = live
                return False
            when = min(t[0] for t in live)
            if when > self._t:
                self._t = when
            due = sorted([t for t in live if t[0] <= self._t], key=lambda t: (t[0], t[1]))
            self._timers = [t for t in live if t[0] > self._t]
            for _, _, h in due:
                self._ready.append(h)
        self.iterations += 1
        if self.on_iteration is not None:
            self.on_iteration(self, self.iterations)
        ready, self._ready = self._ready, []
        for h in ready:
            if not h.cancelled():
                self.steps += 1
                h._run()
        if self.steps > self.max_steps:
            raise StepBudgetExceeded("step budget exceeded")
        return True

    def _enter(self):
        self._running = True
        events._set_running_loop(self)

    def _leave(self):
        self._running = False
        events._set_running_loop(None)

    def run_until_complete(self, fut):
        fut = asyncio.ensure_future(fut, loop=self)
        self._enter()
        try:
            while not fut.done():
                if not self._run_once():
                    if self.on_idle is not None and self.on_idle(self):
                        continue
                    raise Deadlock("nothing scheduled and future not done")
        finally:
            self._leave()
        return fut.result()

    def run_idle(self, advance=False, limit=None):
        """Run until nothing is ready.  advance=False: timers are not advanced; advance=True: also fire timers
        (until `limit` virtual ms if given)."""
        self._enter()
        try:
            while True:
                if self._ready:
                    self._run_once(advance=False)
                    continue
                if not advance:
                    break
                live = [t for t in self._timers if not t[2].cancelled()]
                if not live:
                    break
                if limit is not None and min(t[0] for t in live) > limit:
                    break
                self._run_once(advance=True)
        finally:
            self._leave()

    def pending_timers(self):
        return [t for t in self._timers if not t[2].cancelled()]


def new_loop(max_steps=200000):
    loop = VLoop(max_steps=max_steps)
    asyncio.set_event_loop(loop)
    return loop
