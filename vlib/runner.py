"""Runner: generates a harness module from /repo's current source, discharges every condition with CrossHair (z3) in
parallel, maps verdicts, replays counterexamples natively (no solver), writes evidence, prints VIOLATION lines.

Exit codes: 0 = no violation found, 1 = at least one replayed, unlisted violation, 3 = harness error (non-reproducing
counterexample, dead reachability twin, translator/model disagreement).
"""
import ast
import concurrent.futures as cf
import dataclasses
import hashlib
import importlib
import importlib.util
import inspect
import json
import os
import re
import shutil
import subprocess
import sys
import textwrap
import time

ROOT = os.path.dirname(os.path.dirname(os.path.abspath(__file__)))
VENV_PY = os.path.join(ROOT, ".venv", "bin", "python")
WORK = os.path.join(ROOT, "work")
EVID = os.environ.get("VERIF_EVIDENCE_DIR") or os.path.join(ROOT, "evidence")  # development runs against seeded trees write elsewhere
REPLAYS = os.path.join(ROOT, "replays")
KNOWN = os.path.join(ROOT, "known_findings.json")

EXIT_OK, EXIT_VIOLATION, EXIT_HARNESS = 0, 1, 3


class HarnessError(Exception):
    pass


@dataclasses.dataclass
class Cond:
    fn: str  # function name in the generated harness module
    kind: str = "prop"  # prop: expect Confirmed | twin: expect a reproducing counterexample | search: bug hunt only
    timeout: int = 60  # crosshair --per_condition_timeout (CPU seconds)
    per_path: float = 0  # crosshair --per_path_timeout; 0 = same as the condition timeout
    group: str = ""
    note: str = ""


@dataclasses.dataclass
class Spec:
    pid: str
    source: str  # harness module source (generated)
    conds: list
    functions_encoded: list  # python objects (functions / classes) of aioftp that are symbolically executed
    bounds: dict
    outside: list
    explanation: str
    assumptions: list = dataclasses.field(default_factory=list)
    native: list = dataclasses.field(default_factory=list)  # [(name, callable)] -> native pre-checks (model validation)
    extra: dict = dataclasses.field(default_factory=dict)
    rule: str = (
        "one evaluation = one execution path completed by CrossHair through the real aioftp code (counted by the harness "
        "itself); distinct_nontrivial = distinct (condition, outcome signature) pairs among them, the signature being the "
        "concrete reply codes / outcome class observed on that path"
    )


def ensure_env():
    """Build the overlay venv if needed and re-exec under it."""
    if os.path.abspath(sys.executable) != os.path.abspath(VENV_PY) and not os.environ.get("VERIF_NO_REEXEC"):
        subprocess.run([os.path.join(ROOT, "setup.sh")], check=True)
        os.environ["VERIF_NO_REEXEC"] = "1"
        os.execv(VENV_PY, [VENV_PY] + sys.argv)


def describe_fn(obj):
    try:
        src = inspect.getsource(obj)
        lines, start = inspect.getsourcelines(obj)
        f = inspect.getsourcefile(obj)
    except Exception:  # noqa: BLE001
        return {"name": getattr(obj, "__qualname__", repr(obj)), "file": "?", "lines": "?", "sha256": "?"}
    return {
        "name": getattr(obj, "__qualname__", getattr(obj, "__name__", repr(obj))),
        "file": os.path.relpath(f, "/repo") if f and f.startswith("/repo") else f,
        "lines": f"{start}-{start + len(lines) - 1}",
        "sha256": hashlib.sha256(src.encode()).hexdigest()[:16],
    }


def innermost(f):
    """the undecorated function (follows __wrapped__ as far as it goes; a function that is not decorated is returned as is)"""
    return unwrap_all(f)[-1]


def unwrap_all(f):
    seen = []
    while f is not None and f not in seen:
        seen.append(f)
        f = getattr(f, "__wrapped__", None)
    return seen


_MSG = re.compile(r"^(?P<file>[^:]+\.py):(?P<line>\d+): (?P<sev>error|info|warning): (?P<msg>.*)$")


def _fn_lines(source):
    tree = ast.parse(source)
    out = {}
    for node in tree.body:
        if isinstance(node, ast.FunctionDef):
            out[node.name] = (node.lineno, node.end_lineno)
    return out


def _run_crosshair(path, line, cond, pathlog, env_extra):
    cmd = [
        VENV_PY,
        "-m",
        "crosshair",
        "check",
        "--report_all",
        "--analysis_kind",
        "PEP316",
        "--per_condition_timeout",
        str(cond.timeout),
        "--per_path_timeout",
        str(cond.per_path or cond.timeout),
        f"{path}:{line}",
    ]
    env = dict(os.environ)
    env.update(env_extra)
    env["VERIF_PATHLOG"] = pathlog
    env["PYTHONPATH"] = ROOT + os.pathsep + env.get("PYTHONPATH", "")
    env["PYTHONHASHSEED"] = "0"
    t0 = time.time()
    wall = int(cond.timeout * 4) + 120  # generous: the CPU budget is what bounds the search, wall time depends on the load
    try:
        p = subprocess.run(cmd, capture_output=True, text=True, timeout=wall, env=env, cwd=os.path.dirname(path))
        out, err, rc = p.stdout, p.stderr, p.returncode
    except subprocess.TimeoutExpired as e:
        out = (e.stdout or b"").decode() if isinstance(e.stdout, bytes) else (e.stdout or "")
        err = "WALL-TIMEOUT"
        rc = -9
    return {"out": out, "err": err, "rc": rc, "seconds": round(time.time() - t0, 2)}


def _parse(res):
    """-> (verdict, detail)  verdict in confirmed | counterexample | not_confirmed | no_precondition | error"""
    verdict, detail = "error", (res["err"] or "")[-400:]
    for ln in res["out"].splitlines():
        m = _MSG.match(ln.strip())
        if not m:
            continue
        msg = m.group("msg")
        if m.group("sev") == "error":
            return "counterexample", msg
        if "Confirmed over all paths" in msg:
            verdict, detail = "confirmed", msg
        elif "Not confirmed" in msg:
            verdict, detail = "not_confirmed", msg
        elif "Unable to meet precondition" in msg:
            verdict, detail = "no_precondition", msg
    if verdict == "error" and res["rc"] == -9:
        return "not_confirmed", "wall timeout"
    return verdict, detail


_CALL = re.compile(r"when calling (?P<call>.*?)(?: \(which (?:returns|raises) .*\))?$", re.S)


def extract_call(msg):
    m = _CALL.search(msg)
    if not m:
        return None
    call = m.group("call").strip()
    # crosshair may wrap the call in 'with ...:' context text for patched nondeterminism: treat as harness problem
    return call


def load_harness(path):
    name = "verif_harness_" + hashlib.md5(path.encode()).hexdigest()[:8]
    spec = importlib.util.spec_from_file_location(name, path)
    mod = importlib.util.module_from_spec(spec)
    sys.modules[name] = mod
    spec.loader.exec_module(mod)
    return mod


def replay_native(path, call, timeout=300):
    """Re-execute the counterexample in a fresh interpreter WITHOUT CrossHair.
    -> dict(reproduced: bool, detail: str, key: str)"""
    code = textwrap.dedent(
        """
        import sys, json
        sys.path.insert(0, %r)
        from vlib import runner
        mod = runner.load_harness(%r)
        import vlib.hbase as hb
        key = ""
        try:
            r = eval(%r, vars(mod))
            reproduced = not bool(r)
            detail = "returned %%r" %% (r,)
        except Exception as e:
            reproduced = True
            detail = "raised %%s: %%s" %% (type(e).__name__, str(e)[:300])
        key = getattr(hb, "KEY", "") or ""
        print("REPLAY-RESULT " + json.dumps({"reproduced": reproduced, "detail": detail, "key": key}))
        """
    ) % (ROOT, path, call)
    env = dict(os.environ)
    env.pop("VERIF_PATHLOG", None)
    env["PYTHONPATH"] = ROOT + os.pathsep + os.environ.get("PYTHONPATH", "")
    try:
        p = subprocess.run([VENV_PY, "-c", code], capture_output=True, text=True, timeout=timeout, env=env)
    except subprocess.TimeoutExpired:
        return {"reproduced": False, "detail": "replay timed out", "key": ""}
    for ln in p.stdout.splitlines():
        if ln.startswith("REPLAY-RESULT "):
            return json.loads(ln[len("REPLAY-RESULT "):])
    return {"reproduced": False, "detail": "replay crashed: " + (p.stderr or p.stdout)[-600:], "key": ""}


def known_findings(pid):
    try:
        data = json.load(open(KNOWN))
    except FileNotFoundError:
        return []
    return [e for e in data.get("findings", []) if e.get("property") == pid and e.get("status", "open") == "open"]


def write_replay(pid, tier, n, cond, call, detail):
    d = os.path.join(REPLAYS, pid)
    os.makedirs(d, exist_ok=True)
    p = os.path.join(d, f"{tier}_{n}.py")
    with open(p, "w") as f:
        f.write(
            textwrap.dedent(
                f"""\
                #!/verif/.venv/bin/python
                # Replay of a counterexample for {pid} (condition {cond}); regenerates the harness from /repo's
                # current source and re-executes the call natively (no solver).  Exit 1 = violation reproduced.
                # observed: {detail!r}
                import sys
                sys.path.insert(0, {ROOT!r})
                from vlib import runner
                sys.exit(runner.replay_main({pid!r}, {tier!r}, {call!r}))
                """
            )
        )
    os.chmod(p, 0o755)
    return p


def replay_main(pid, tier, call):
    ensure_env()
    mod = importlib.import_module("vlib.props." + pid.lower())
    spec = mod.build(tier)
    path = _write_harness(spec, tier)
    r = replay_native(path, call)
    print(json.dumps(r, indent=1))
    return 1 if r["reproduced"] else 0


def _write_harness(spec, tier):
    d = os.path.join(WORK, spec.pid, f"{tier}.{os.getpid()}")  # per invocation: concurrent runs of one check do not collide
    shutil.rmtree(d, ignore_errors=True)
    os.makedirs(d, exist_ok=True)
    path = os.path.join(d, f"h_{spec.pid.lower()}.py")
    with open(path, "w") as f:
        f.write(spec.source)
        f.write("\nhb.COUNTING = True\n")
    return path


def run(pid, tier="quick", jobs=None, keep=False, only=None):
    ensure_env()
    t_start = time.time()
    seed = int(os.environ.get("VERIF_SEED", "0") or 0)
    jobs = jobs or int(os.environ.get("VERIF_JOBS", "0") or 0) or os.cpu_count() or 4
    mod = importlib.import_module("vlib.props." + pid.lower())
    spec = mod.build(tier)
    path = _write_harness(spec, tier)
    lines = _fn_lines(spec.source)
    problems, violations, known_hits = [], [], []
    native_results = []

    # 0. the harness must import (concrete warm-up runs inside)
    env = dict(os.environ)
    env["PYTHONPATH"] = ROOT + os.pathsep + os.environ.get("PYTHONPATH", "")
    env.pop("VERIF_PATHLOG", None)
    p = subprocess.run([VENV_PY, path], capture_output=True, text=True, env=env, timeout=600)
    if p.returncode != 0:
        problems.append("harness import failed: " + (p.stderr or p.stdout)[-1500:])

    # 1. native checks (z3 kernels, model / translator validation): started now, joined after the CrossHair conditions
    def _run_native(name, fn):
        t0 = time.time()
        try:
            res = fn()
        except HarnessError as e:
            res = {"error": str(e)}
        except Exception as e:  # noqa: BLE001  a crash of the native part is a harness error, never a pass
            import traceback

            res = {"error": f"crashed: {type(e).__name__}: {e}"}
            traceback.print_exc()
        return {"name": name, "seconds": round(time.time() - t0, 2), "result": res}

    native_pool = cf.ThreadPoolExecutor(max_workers=max(1, len(spec.native)))
    native_futs = [native_pool.submit(_run_native, name, fn) for name, fn in spec.native] if not problems else []

    conds = [c for c in spec.conds if only is None or c.fn in only]
    results = {}
    pathlogs = {}
    if not problems:
        order = sorted(conds, key=lambda c: -c.timeout)
        with cf.ThreadPoolExecutor(max_workers=jobs) as ex:
            futs = {}
            for c in order:
                if c.fn not in lines:
                    problems.append(f"condition {c.fn} missing in generated harness")
                    continue
                pl = os.path.join(os.path.dirname(path), f"paths_{c.fn}.log")
                pathlogs[c.fn] = pl
                futs[ex.submit(_run_crosshair, path, lines[c.fn][0] + 1, c, pl, {})] = c
            for fut in cf.as_completed(futs):
                c = futs[fut]
                results[c.fn] = fut.result()
        # a budget that ran out (machine under load) is retried once with three times the budget before the condition is
        # reported inconclusive (prop) or its twin as unreachable; never done for searches, and a verdict is never overridden
        retry = [c for c in order if c.kind != "search" and c.fn in results and _parse(results[c.fn])[0] in ("not_confirmed", "no_precondition")]
        if retry:
            import dataclasses

            with cf.ThreadPoolExecutor(max_workers=jobs) as ex:
                futs = {}
                for c in retry:
                    open(pathlogs[c.fn], "w").close()
                    c3 = dataclasses.replace(c, timeout=c.timeout * 3)
                    futs[ex.submit(_run_crosshair, path, lines[c.fn][0] + 1, c3, pathlogs[c.fn], {})] = c
                for fut in cf.as_completed(futs):
                    c = futs[fut]
                    first = results[c.fn]
                    results[c.fn] = fut.result()
                    results[c.fn]["seconds"] = round(results[c.fn]["seconds"] + first["seconds"], 2)
                    results[c.fn]["retried"] = True
    native_results = [f.result() for f in native_futs]
    native_pool.shutdown()

    cond_reports = []
    evaluations, sigs, samples = 0, set(), []
    discharged = inconclusive = 0
    solver_s = 0.0
    n_replay = 0
    for c in conds:
        res = results.get(c.fn)
        if res is None:
            continue
        verdict, detail = _parse(res)
        solver_s += res["seconds"]
        npaths = 0
        csigs = set()
        try:
            with open(pathlogs[c.fn], encoding="utf-8", errors="replace") as f:
                for ln in f:
                    npaths += 1
                    csigs.add(ln.rstrip("\n"))
        except FileNotFoundError:
            pass
        evaluations += npaths
        sigs |= csigs
        rep = {"condition": c.fn, "kind": c.kind, "group": c.group, "verdict": verdict, "paths": npaths,
               "seconds": res["seconds"], "budget_cpu_s": c.timeout}
        if c.note:
            rep["note"] = c.note
        if res.get("retried"):
            rep["retried_with_budget_s"] = c.timeout * 3
        if verdict == "counterexample":
            call = extract_call(detail)
            rep["counterexample"] = detail[:600]
            if call is None or call.startswith("with "):
                if c.kind == "twin":
                    problems.append(f"{c.fn}: unparsable twin witness: {detail[:300]}")
                else:
                    problems.append(f"{c.fn}: counterexample could not be parsed / uses patched nondeterminism: {detail[:300]}")
            else:
                rr = replay_native(path, call)
                rep["replay"] = rr
                if c.kind == "twin":
                    if rr["reproduced"]:
                        rep["verdict"] = "reachable"
                        if len(samples) < 12:
                            samples.append({"condition": c.fn, "solver_chosen_input": call[:300], "outcome": "reaches the end of the aioftp call (reachability twin)"})
                    else:
                        problems.append(f"{c.fn}: reachability witness does not replay: {rr['detail'][:300]}")
                else:
                    if rr["reproduced"]:
                        key = f"{c.group or c.fn}:{rr.get('key') or 'unclassified'}"
                        listed = [k for k in known_findings(pid) if k["key"] == key or key.startswith(k["key"])]
                        if listed:
                            known_hits.append((listed[0], call))
                            rep["verdict"] = "known_finding"
                        else:
                            n_replay += 1
                            rp = write_replay(pid, tier, n_replay, c.fn, call, rr["detail"])
                            violations.append({"condition": c.fn, "call": call, "detail": rr["detail"], "replay": rp, "key": key})
                            rep["verdict"] = "violation"
                    else:
                        problems.append(f"{c.fn}: counterexample does not reproduce natively ({call[:200]} -> {rr['detail'][:200]})")
                        rep["verdict"] = "non_reproducing"
        elif verdict == "confirmed":
            if c.kind == "twin":
                problems.append(f"{c.fn}: reachability twin was confirmed (harness never reaches the assertion)")
            elif c.kind == "prop":
                discharged += 1
        elif verdict in ("not_confirmed", "no_precondition") and c.kind == "search":
            rep["verdict"] = "searched_not_exhausted"
        elif verdict in ("not_confirmed", "no_precondition"):
            if c.kind == "twin":
                problems.append(f"{c.fn}: reachability twin found no witness ({verdict})")
            elif c.kind == "prop":
                inconclusive += 1
        else:
            problems.append(f"{c.fn}: crosshair failed: {detail[-600:]} {res['out'][-300:]}")
        cond_reports.append(rep)

    # native pre-checks may report violations too (already replayed natively by construction)
    for nr in native_results:
        r = nr["result"]
        if isinstance(r, dict):
            for v in r.get("violations", []):
                key = v.get("key", "native:unclassified")
                listed = [k for k in known_findings(pid) if k["key"] == key or key.startswith(k["key"])]
                if listed:
                    known_hits.append((listed[0], v.get("what", "")))
                else:
                    n_replay += 1
                    rp = v.get("replay") or write_replay(pid, tier, n_replay, nr["name"], v.get("call", "None"), v.get("what", ""))
                    violations.append({"condition": nr["name"], "call": v.get("call", ""), "detail": v.get("what", ""), "replay": rp, "key": key})
            evaluations += int(r.get("evaluations", 0))
            for s in r.get("sigs", []):
                sigs.add(nr["name"] + "\t" + s)
            for s in r.get("samples", [])[:4]:
                samples.append(s)
            discharged += int(r.get("discharged", 0))
            inconclusive += int(r.get("inconclusive", 0))
            solver_s += float(r.get("solver_s", 0))
            if r.get("error"):
                problems.append(f"native {nr['name']}: {r['error']}")

    for s in sorted(sigs)[:8]:
        if len(samples) < 20:
            samples.append({"path_signature": s})
    if not samples:
        samples.append({"note": "no path completed"})

    seen = set()
    for kf, call in known_hits:
        if kf["key"] not in seen:
            seen.add(kf["key"])
            print(f"KNOWN-FINDING: property={pid} {kf['key']} {kf.get('what', '')}")
    for v in violations:
        print(f"VIOLATION property={pid} replay={v['replay']}")
        print(f"  condition={v['condition']} key={v['key']} input={v['call'][:400]} observed={v['detail'][:300]}")
    for pr in problems:
        print(f"HARNESS-ERROR property={pid} {pr}", file=sys.stderr)

    coverage = {
        "explanation": spec.explanation,
        "evaluations": max(evaluations, 0),
        "distinct_nontrivial": len(sigs),
        "rule": spec.rule,
        "samples": samples,
        "exhaustive": bool(conds) and inconclusive == 0 and not problems and not violations,
        "functions_encoded": [describe_fn(f) for f in spec.functions_encoded],
        "bounds": spec.bounds,
        "stubs": spec.extra.get("stubs", []),
        "conditions": cond_reports,
        "native_checks": [{k: v for k, v in nr.items() if k != "result"} | {"summary": _summ(nr["result"])} for nr in native_results],
        "queries_discharged": discharged,
        "queries_inconclusive": inconclusive,
        "solver_s": round(solver_s, 1),
        "outside_the_bound": spec.outside,
        "known_findings_hit": sorted(seen),
        "harness_problems": problems,
        "engine": "CrossHair 0.0.110 (symbolic execution of the real Python code, z3 decides every branch) + z3 " + _z3v(),
    }
    ev = {
        "property_id": pid,
        "tier": tier,
        "seed": seed,
        "level": "other",
        "coverage": coverage,
        "assumptions": spec.assumptions,
        "wall_s": round(time.time() - t_start, 1),
        "violations": len(violations),
    }
    os.makedirs(EVID, exist_ok=True)
    with open(os.path.join(EVID, f"{pid}.json"), "w") as f:
        json.dump(ev, f, indent=1, default=str)
    print(f"{pid} {tier}: conditions={len(conds)} discharged={discharged} inconclusive={inconclusive} "
          f"violations={len(violations)} known={len(seen)} paths={evaluations} wall={ev['wall_s']}s")
    if not keep:
        shutil.rmtree(os.path.dirname(path), ignore_errors=True)
    if violations:
        return EXIT_VIOLATION
    if problems:
        return EXIT_HARNESS
    return EXIT_OK


def _summ(r):
    if isinstance(r, dict):
        return {k: v for k, v in r.items() if k in ("evaluations", "discharged", "inconclusive", "solver_s", "summary", "error", "queries")}
    return r


def _z3v():
    try:
        import z3

        return z3.get_version_string()
    except Exception:  # noqa: BLE001
        return "?"


def main(argv=None):
    import argparse

    ap = argparse.ArgumentParser()
    ap.add_argument("pid")
    ap.add_argument("--tier", default=os.environ.get("VERIF_TIER", "quick"))
    ap.add_argument("--jobs", type=int, default=0)
    ap.add_argument("--keep", action="store_true")
    ap.add_argument("--only", nargs="*")
    a = ap.parse_args(argv)
    return run(a.pid.upper(), a.tier, a.jobs or None, a.keep, set(a.only) if a.only else None)


if __name__ == "__main__":
    sys.exit(main())
