"""Engine patches for CrossHair 0.0.110 (applied at harness import; each one is listed in the evidence).

1. LazyIntSymbolicStr.__eq__: a symbolic string whose code points are a concatenation / slice containing a SymbolicList
   part (produced by slicing a concrete tail with symbolic bounds, e.g. (s + "\r\n")[:-2] or rstrip()) compared unequal
   to an equal string because SymbolicList.__eq__ is type-strict (list vs tuple-like SliceView).  Measured:
   `(s + "ab")[:-2] == s` was reported false with s = '\x00' while `s == (s + "ab")[:-2]` was confirmed.  The patch
   unwraps SymbolicList parts before comparing code-point sequences (string equality is sequence equality of code points).
"""


def apply():
    try:
        from crosshair.libimpl import builtinslib as bl
        from crosshair.simplestructs import SequenceConcatenation, ShellMutableSequence, SliceView
        from crosshair.tracers import NoTracing, ResumedTracing
    except Exception:  # noqa: BLE001  crosshair not importable: native replay, nothing to patch
        return False
    if getattr(bl.LazyIntSymbolicStr, "_verif_patched", False):
        return True
    # builtinslib._repr (CrossHair's stand-in for repr()) carries a docstring with a "post" line, so the engine treats it as a
    # function with a contract and, 30% of the time, SKIPS the call and substitutes a fresh symbolic str that is reconciled (or
    # the whole path thrown away: "IgnoreAttempt ... Reconcile short circuit") later.  That only wastes paths (every f"{x!r}" in
    # aioftp goes through it) and can starve a reachability twin of its budget.  Calls are always executed instead.
    try:
        from crosshair import core as _core

        _core.ShortCircuitingContext.make_interceptor = lambda self, original: original
    except Exception:  # noqa: BLE001
        pass

    def norm(points, depth=0):
        if depth > 50:
            return points
        if isinstance(points, ShellMutableSequence):
            return norm(points.inner, depth + 1)
        if isinstance(points, SequenceConcatenation):
            f, s = norm(points._first, depth + 1), norm(points._second, depth + 1)
            if f is not points._first or s is not points._second:
                return SequenceConcatenation(f, s)
            return points
        if isinstance(points, SliceView):
            q = norm(points.seq, depth + 1)
            if q is not points.seq:
                return SliceView(q, points.start, points.stop)
            return points
        return points

    def __eq__(self, other):
        with NoTracing():
            mypoints = norm(self._codepoints)
            if isinstance(other, bl.LazyIntSymbolicStr):
                otherpoints = norm(other._codepoints)
            elif isinstance(other, str):
                otherpoints = [ord(ch) for ch in other]
            else:
                return NotImplemented
            with ResumedTracing():
                if isinstance(mypoints, list) and not isinstance(otherpoints, list):
                    return otherpoints.__eq__(mypoints)
                return mypoints.__eq__(otherpoints)

    bl.LazyIntSymbolicStr.__eq__ = __eq__
    bl.LazyIntSymbolicStr._verif_patched = True
    return True


PATCHES = [
    "CrossHair 0.0.110 LazyIntSymbolicStr.__eq__ patched: SymbolicList parts of concatenated/sliced code-point sequences are "
    "unwrapped before comparison (upstream bug made `(s + 'ab')[:-2] == s` false)",
]
