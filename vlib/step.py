"""CH-step / CH-session support: run the REAL Server.dispatcher for one or a few commands from an injected pre-state.

The dispatcher builds its own Connection; the scripted control reader calls a hook just before it delivers a line, and
the first hook writes the (symbolic) pre-state into that Connection.  Every command is therefore parsed, dispatched,
post-processed (restart_offset reset, PathIOError -> 451, 502 for unknown verbs) and answered by aioftp's own code.
"""
import asyncio
import pathlib

import aioftp
from aioftp import server as srv
from aioftp.common import ThrottleStreamIO

from . import hbase as hb


class HookReader(hb.ScriptReader):
    """ScriptReader whose items carry a hook that runs right before the item is delivered (after its gap)."""

    def __init__(self, items, eof=True, cuts=None):
        super().__init__([(g, d) for g, d, _ in items], eof=eof, cuts=cuts)
        self.hooks = [h for _, _, h in items]
        self.final_hook = None
        self.final_done = False

    async def _next_item(self):
        if not self.script:
            if not self.final_done:
                self.final_done = True
                await asyncio.sleep(self.final_gap)
                h, self.final_hook = self.final_hook, None
                if h is not None:
                    h()
            return await super()._next_item()
        gap, data = self.script.pop(0)
        hook = self.hooks.pop(0)
        await asyncio.sleep(gap)
        if hook is not None:
            hook()
        return data

    final_gap = 1000


class Line:
    """bytes stand-in whose decode() yields a (possibly symbolic) str: the utf-8 codec is CPython's, not aioftp's."""

    def __init__(self, s):
        self.s = s

    def decode(self, encoding=None, errors=None):
        return self.s

    def __len__(self):
        return len(self.s)

    def __bool__(self):
        return True


class Listeners:
    """asyncio.start_server stub for CH-step: yields like loop.create_server, then returns a FakeListener."""

    def __init__(self):
        self.started = []  # (port, callback, listener)
        self.fail = None  # callable(n, port) -> exception | None
        self.calls = 0

    async def start_server(self, cb, host=None, port=0, **kw):
        self.calls += 1
        n = self.calls
        await asyncio.sleep(0)
        if self.fail is not None:
            exc = self.fail(n, port)
            if exc is not None:
                raise exc
        lst = hb.FakeListener(host or "10.0.0.1", port or (40000 + n))
        self.started.append((port, cb, lst))
        await asyncio.sleep(0)
        return lst

    def live(self):
        return [l for _, _, l in self.started if not l.closed]


def install_listeners():
    ls = Listeners()
    srv.asyncio = _AsyncioProxy(ls)
    return ls


class _AsyncioProxy:
    """aioftp.server's view of the asyncio module with start_server replaced."""

    def __init__(self, ls):
        self._ls = ls

    def __getattr__(self, name):
        if name == "start_server":
            return self._ls.start_server
        return getattr(asyncio, name)


def make_server(users=None, **kw):
    kw.setdefault("path_io_factory", hb.SpyPathIO)
    server = aioftp.Server(users, **kw)
    server.connections = {}
    server.server_port = 21
    server.server_host = "10.0.0.1"
    server._start_server_extra_arguments = {}
    return server


def tree_paths(server):
    """dict path -> 'dir' | bytes for the shared MemoryPathIO state of `server` (excluding the root)."""
    state = server.path_io_factory.state
    out = {}
    if state is None:
        return out

    def walk(nodes, prefix):
        for n in nodes:
            p = prefix + n.name if prefix.endswith("/") else prefix + "/" + n.name
            if n.type == "dir":
                out[p] = "dir"
                walk(n.content, p)
            else:
                out[p] = bytes(n.content.getbuffer())

    for n in state:
        if n.name == "/":
            walk(n.content, "/")
    return out


def build_tree(server, spec):
    """spec: dict path -> 'dir' | bytes ; parents must precede children.  Builds it directly into the nursery state."""
    from aioftp.pathio import Node
    import io

    pio = server.path_io_factory(timeout=None, connection=None)  # creates the shared state
    root = pio.fs[0]
    for p, v in spec.items():
        parts = [x for x in p.split("/") if x]
        cur = root
        for part in parts[:-1]:
            cur = next(n for n in cur.content if n.name == part)
        if v == "dir":
            cur.content.append(Node("dir", parts[-1], ctime=hb.FIXED_NOW - 100, mtime=hb.FIXED_NOW - 100, content=[]))
        else:
            cur.content.append(Node("file", parts[-1], ctime=hb.FIXED_NOW - 100, mtime=hb.FIXED_NOW - 100, content=io.BytesIO(v)))
    return pio


def conn_state(c):
    def has(k):
        return k in c and c[k].done()

    return {
        "user": (c.user.login or "anonymous") if has("user") else None,
        "logged": has("logged"),
        "cwd": str(c.current_directory) if has("current_directory") else None,
        "rename_from": str(c.rename_from) if has("rename_from") else None,
        "restart_offset": c.restart_offset if has("restart_offset") else None,
        "passive": has("passive_server"),
        "data": has("data_connection"),
        "type": c.transfer_type if has("transfer_type") else None,
        "workers": len(c.extra_workers) if has("extra_workers") else 0,
    }


def inject(server, c, pre, listeners=None):
    """Write a pre-state into the dispatcher's own Connection.  pre keys: user (User|None), logged, cwd, rename_from (str),
    restart_offset, passive (bool), data (None | (payload_items, cuts)), type."""
    user = pre.get("user")
    if user is not None:
        c.user = user
        c.current_directory = pathlib.PurePosixPath(pre.get("cwd") or str(user.home_path))
        if user not in server.throttle_per_user:
            server.throttle_per_user[user] = aioftp.StreamThrottle.from_limits(user.read_speed_limit, user.write_speed_limit)
        c.command_connection.throttles.update(
            user_global=server.throttle_per_user[user],
            user_per_connection=aioftp.StreamThrottle.from_limits(
                user.read_speed_limit_per_connection, user.write_speed_limit_per_connection
            ),
        )
        server.user_manager.available_connections[user].acquire()
    if pre.get("logged"):
        c.logged = True
    if pre.get("rename_from") is not None:
        base = user.base_path if user is not None else pathlib.Path(pre.get("base", "/srv"))
        c.rename_from = base / pre["rename_from"].lstrip("/")
    if pre.get("restart_offset"):
        c.restart_offset = pre["restart_offset"]
    if pre.get("type"):
        c.transfer_type = pre["type"]
    if pre.get("passive"):
        lst = hb.FakeListener(port=pre.get("passive_port") or 40001)
        c.passive_server = lst
        if pre.get("passive_port"):
            c.passive_server_port = pre["passive_port"]
        if listeners is not None:
            listeners.started.append((pre.get("passive_port") or 0, None, lst))
    if pre.get("data") is not None:
        items, cuts = pre["data"]
        dr = hb.ScriptReader([(0, b) for b in items], eof=True, cuts=cuts)
        dw = hb.CollectWriter()
        c.data_connection = ThrottleStreamIO(dr, dw, throttles=c.command_connection.throttles, timeout=c.socket_timeout)
        return dr, dw
    return None, None


class StepResult:
    pass


def dispatcher_session(server, pre, lines, *, gap=1000, listeners=None, ctrl_cuts=None, quit_at_end=False,
                       hooks=None, loop=None, final_gap=None):
    """Run the real dispatcher: greeting, inject `pre`, then deliver `lines` one at a time (each after `gap` virtual ms,
    i.e. after the previous command has been fully processed), observe the state before each delivery, then EOF.
    -> StepResult(replies, states, data_writer, raised, server, connection, writer)"""
    loop = loop or hb.new_loop()
    res = StepResult()
    res.states = []
    res.reply_marks = []
    res.data_reader = res.data_writer = None
    res.connection = None
    writer = hb.CollectWriter()

    def first():
        c = next(iter(server.connections.values()))
        res.connection = c
        res.data_reader, res.data_writer = inject(server, c, pre, listeners)
        res.states.append(conn_state(c))
        res.reply_marks.append(len(hb.reply_codes(writer)))

    def observe():
        res.states.append(conn_state(res.connection))
        res.reply_marks.append(len(hb.reply_codes(writer)))

    items = []
    for i, l in enumerate(lines):
        data = l if isinstance(l, (bytes, Line)) else Line(l + "\r\n")
        hk = first if i == 0 else observe
        extra = (hooks or {}).get(i)
        if extra is not None:
            def both(hk=hk, extra=extra):
                hk()
                extra(res)
            items.append((gap, data, both))
        else:
            items.append((gap, data, hk))
    reader = HookReader(items, eof=True)
    reader.final_hook = observe if lines else first
    reader.final_gap = gap if final_gap is None else final_gap
    res.raised = None
    try:
        loop.run_until_complete(server.dispatcher(reader, writer))
    except hb.vloop.StepBudgetExceeded:
        raise
    except Exception as e:  # noqa: BLE001
        res.raised = e
    res.replies = hb.reply_codes(writer)
    res.writer = writer
    res.loop = loop
    res.server = server
    return res


def per_command_replies(res):
    """Split the transcript by command using the marks taken right before each delivery.
    -> [greeting..., ], [replies of command 0], [replies of command 1] ..."""
    marks = res.reply_marks + [len(res.replies)]
    head = res.replies[: marks[0]]
    per = [res.replies[marks[i]: marks[i + 1]] for i in range(len(marks) - 1)]
    return head, per
